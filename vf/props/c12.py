"""C12  Unit tables form a consistent algebra and agree with their definitions.

The directed cases enumerate the finite tables *exhaustively* (every ordered pair and
triple inside each quantity type, every cross-type pair, every key of every constant
table, every element); random cases add arbitrary numeric arguments and compositions.
Oracles: T1 reflexive, T2 invertible, T3 transitive (affine for temperature), T4
cross-type refused, T5 factors vs. SI definitions (vf/ref/units.py), T6 constant tables vs.
SI through pMuTT's own convert_unit and R = kB*NA, T7 spectroscopic helpers mutually
inverse / path independent, T8 element tables.
"""
import itertools
import math

from vf import core
from vf.ref import units as U

ID = 'C12'
N = {'quick': 150000, 'thorough': 2000000}
EXHAUSTIVE = True
NT_RULE = ('directed cases enumerate type_dict exhaustively: per quantity type all ordered pairs and '
           'triples (T1-T3), per unit all cross-type partners (T4), per unit its SI definition (T5), '
           'every key of R/h/kb/c/m_e/m_p/P0/T0/V0 (T6), spectroscopic helpers (T7), every element '
           '(T8); random cases draw numeric arguments 1e-12..1e12 (negative allowed for temperatures) '
           'and compositions.  non-trivial = case that involves >=2 distinct units or >=2 elements; '
           'distinct = distinct canonical JSON of the case')
REQUIRED_ORACLES = ['T1', 'T2', 'T3', 'T4', 'T5', 'T6', 'T7', 'T8']
REQUIRED_PROBES = ['convert_unit']
REQUIRED_CLASSES = ['R:candidate_keys_probed', 'cross:num=empty_list', 'cross:num=empty_tuple', 'cross:num=none', 'cross:num=array',
                    'formula:plain', 'formula:zero_count', 'formula:leading_zero', 'formula:both']
ASSUMPTIONS = ['unit strings = keys of pmutt.constants.type_dict; constant-table keys as documented in '
               'the accessor docstrings',
               'T5 tolerance = rounding of the tabulated literal: 5e-6 (six significant digits) in general, '
               '1e-4 for the four-digit literals 6.022e26 (amu) and 6.242e18 (eV/molecule); T6: 2e-6 '
               '(CODATA 2014 vs 2018); R = kB*NA to 1e-6',
               'SI definitions in vf/ref/units.py (CODATA 2018, exact inch/lb/cal_th/atm definitions)']

TOL_TABLE = 5e-6          # half a unit in the 6th significant digit: the finest rounding the tables use
TOL_COARSE = {'amu': 1e-4, 'eV/molecule': 1e-4, 'eV/particle': 1e-4}   # four-digit literals 6.022e26, 6.242e18
TOL_CODATA = 2e-6         # CODATA 2014 (tabulated) vs 2018 (reference) for R, kB, h, Na


def tol_of(unit):
    return TOL_COARSE.get(unit, TOL_TABLE)

R_KEYS = ['J/mol/K', 'kJ/mol/K', 'L kPa/mol/K', 'cm3 kPa/mol/K', 'm3 Pa/mol/K', 'cm3 MPa/mol/K',
          'm3 bar/mol/K', 'L bar/mol/K', 'L torr/mol/K', 'cal/mol/K', 'kcal/mol/K', 'L atm/mol/K',
          'cm3 atm/mol/K', 'eV/K', 'Eh/K', 'Ha/K']
H_KEYS = ['J s', 'kJ s', 'eV s', 'Eh s', 'Ha s']
KB_KEYS = ['J/K', 'kJ/K', 'eV/K', 'cal/K', 'kcal/K', 'Eh/K', 'Ha/K']
C_KEYS = ['m/s', 'cm/s']
FIXED_NUMS = [1.0, 3.7e-9, 2.5e6, 0.0, -4.2]
FIXED_TEMPS = [0.0, -40.0, 298.15, 5000.0]


def _types():
    from pmutt import constants as c
    out = {}
    for u, t in c.type_dict.items():
        out.setdefault(t, []).append(u)
    return out


def directed(tier):
    types = _types()
    D = []
    for t, us in sorted(types.items()):
        D.append({'kind': 'algebra', 'type': t, 'units': us,
                  'nums': FIXED_TEMPS if t == 'temp' else FIXED_NUMS})
        D.append({'kind': 'si', 'type': t, 'units': us})
        for u in us:
            others = [v for tt, vs in sorted(types.items()) if tt != t for v in vs]
            D.append({'kind': 'cross', 'unit': u, 'others': others})
    for tab in ('R', 'kb', 'h', 'c', 'm_e', 'm_p', 'P0', 'T0', 'V0', 'R=kbNa'):
        D.append({'kind': 'const', 'table': tab})
    D.append({'kind': 'spectro', 'vals': [1.0, 2.5e-20, 1.3e13, 1500.0, 300.0]})
    for lo in range(1, 119, 10):
        D.append({'kind': 'elements', 'Z': [lo, min(lo + 9, 118)]})
    D.append({'kind': 'mw', 'elements': {'C': 2, 'H': 6, 'O': 1}, 'formula': 'CH3CH2OH'})
    D.append({'kind': 'mw', 'elements': {'Pt': 100}, 'formula': 'Pt100'})
    D.append({'kind': 'mw', 'elements': {'C': 2, 'H': 6}, 'formula': 'C2H6O0', 'style': 'zero_count'})
    D.append({'kind': 'mw', 'elements': {'H': 2, 'O': 1}, 'formula': 'C0H2O1', 'style': 'zero_count'})
    D.append({'kind': 'mw', 'elements': {'C': 2, 'O': 10}, 'formula': 'C02O010', 'style': 'leading_zero'})
    return D


def _num(rng):
    return float('%.6g' % (10 ** rng.uniform(-12, 12)))


def generate(rng, tier):
    from ase.data import chemical_symbols
    k = rng.choice(['algebra', 'algebra', 'spectro', 'mw'])
    if k == 'algebra':
        types = _types()
        t = rng.choice(sorted(types))
        us = rng.sample(types[t], min(len(types[t]), 3))
        if t == 'temp':
            nums = [float('%.6g' % rng.uniform(-400, 6000)) for _ in range(3)]
        else:
            nums = [_num(rng) * rng.choice([1, 1, 1, -1]) for _ in range(3)]
            if rng.random() < 0.2:
                nums[0] = 0.0
        return {'kind': 'algebra', 'type': t, 'units': us, 'nums': nums}
    if k == 'spectro':
        return {'kind': 'spectro', 'vals': [_num(rng) for _ in range(3)]}
    syms = rng.sample(chemical_symbols[1:113], rng.randint(1, 5))
    el = {s: rng.randint(1, 999) for s in syms}
    order = list(el.items())
    rng.shuffle(order)
    # formula with repeats: split some counts in two occurrences
    parts = []
    for s, n in order:
        if n > 1 and rng.random() < 0.3:
            a = rng.randint(1, n - 1)
            parts += [(s, a), (s, n - a)]
        else:
            parts.append((s, n))
    # counts spelled out as zero ('C2H6O0', as 'C{}H{}O{}'.format(...) writes a homologous series) and
    # counts written with leading zeros ('C02'): the written number is the count
    style = rng.choice(['plain', 'plain', 'zero_count', 'leading_zero', 'both'])
    if style in ('zero_count', 'both'):
        absent = [x for x in chemical_symbols[1:113] if x not in el]
        parts += [(x, 0) for x in rng.sample(absent, rng.randint(1, 2))]
    rng.shuffle(parts)
    def wr(s, n):
        if n == 1 and rng.random() < 0.7:
            return s
        if n and style in ('leading_zero', 'both') and rng.random() < 0.5:
            return s + '0' * rng.randint(1, 2) + str(n)
        return s + str(n)
    formula = ''.join(wr(s, n) for s, n in parts)
    return {'kind': 'mw', 'elements': el, 'formula': formula, 'style': style}


def install_probes(pr, ctx):
    def mod():
        from pmutt import constants
        return constants
    pr.watch(lambda: mod().convert_unit, 'convert_unit')
    for f in ('R', 'h', 'kb', 'c', 'm_e', 'm_p', 'P0', 'T0', 'V0'):
        pr.watch(lambda f=f: getattr(mod(), f), 'constants.' + f)
    pr.watch(lambda: __import__('pmutt').get_molecular_weight, 'get_molecular_weight')


# ------------------------------------------------------------------ oracles
def _conv(ctx, oracle, mech, num, u, v):
    from pmutt import constants as c
    return ctx.call(oracle, mech, c.convert_unit, num=num, initial=u, final=v)


def _algebra(spec, ctx):
    t, us, nums = spec['type'], spec['units'], spec['nums']
    if len(us) >= 2:
        ctx.nontrivial()
    ctx.cls('type:' + t)
    for u in us:
        for x in nums:
            r = _conv(ctx, 'T1', {'type': t, 'u': u}, x, u, u)
            if r is not core.NOVALUE:
                ctx.close('T1', r, x, 1e-15, {'type': t, 'u': u}, scale=max(abs(x), 1e-300), x=x)
    for u, v in itertools.permutations(us, 2):
        for x in nums:
            m = {'type': t, 'u': u, 'v': v}
            y = _conv(ctx, 'T2', m, x, u, v)
            if y is core.NOVALUE:
                continue
            back = _conv(ctx, 'T2', m, y, v, u)
            if back is core.NOVALUE:
                continue
            if t == 'temp':
                sc = max(1.0, abs(x), abs(y), 500.0)
                ctx.close('T2', back, x, 1e-12, m, scale=sc, x=x, y=y)
                # affine: independent reference through kelvin
                ctx.close('T5', y, U.from_kelvin(U.to_kelvin(x, u), v), 1e-12, {'unit': u, 'to': v},
                          scale=max(1.0, abs(x), abs(y), 500.0), x=x)
            elif x == 0:
                # proportional: zero converts to zero (and back)
                ctx.check('T2', y == 0 and back == 0, dict(m, what='proportional_zero'), x=x, y=y, back=back)
            else:
                ctx.close('T2', back / x, 1.0, 1e-12, m, x=x, y=y)
                # proportional: conversion of x equals x times the conversion factor
                f = _conv(ctx, 'T2', m, None, u, v)
                if f is not core.NOVALUE:
                    ctx.close('T2', y / x, f, 1e-12, dict(m, what='proportional'), scale=abs(f), x=x)
    for u, v, w in itertools.permutations(us, 3):
        m = {'type': t, 'u': u, 'v': v, 'w': w}
        for x in nums[:2]:
            y = _conv(ctx, 'T3', m, x, u, v)
            if y is core.NOVALUE:
                continue
            z = _conv(ctx, 'T3', m, y, v, w)
            d = _conv(ctx, 'T3', m, x, u, w)
            if z is core.NOVALUE or d is core.NOVALUE:
                continue
            if t != 'temp' and x == 0:
                ctx.check('T3', z == 0 and d == 0, dict(m, what='zero'), z=z, d=d)
                continue
            if t == 'temp':
                ctx.close('T3', z, d, 1e-12, m, scale=max(1.0, abs(z), abs(d), abs(x), 500.0), x=x)
            else:
                ctx.close('T3', z / d, 1.0, 1e-12, m, x=x)
    # batches: an ndarray argument converts element-wise and is left untouched; converting it twice gives
    # the same answer (no in-place rescaling of the caller's array)
    if len(us) >= 2:
        import numpy as np
        u, v = us[0], us[1]
        arr = np.array([float(x) for x in nums] + [1.0, 2.5])
        keep = arr.copy()
        m = {'type': t, 'u': u, 'v': v, 'what': 'ndarray'}
        y1 = _conv(ctx, 'T2', m, arr, u, v)
        y2 = _conv(ctx, 'T2', m, arr, u, v)
        if y1 is not core.NOVALUE and y2 is not core.NOVALUE:
            want = [float(_conv(ctx, 'T2', m, float(x), u, v)) for x in keep]
            sc = max(1.0, max(abs(w) for w in want)) if t == 'temp' else None
            ctx.close('T2', np.asarray(y1, float), want, 1e-12, dict(m, call='first'), scale=sc)
            ctx.close('T2', np.asarray(y2, float), want, 1e-12, dict(m, call='second'), scale=sc)
            ctx.check('T2', np.array_equal(arr, keep), dict(m, what2='argument_modified'))
    # temperature default (no number) must behave as documented: offset of zero
    if t == 'temp':
        for u, v in itertools.permutations(us, 2):
            r = _conv(ctx, 'T3', {'type': t, 'u': u, 'v': v, 'what': 'num=None'}, None, u, v)
            if r is not core.NOVALUE:
                ctx.close('T3', r, U.from_kelvin(U.to_kelvin(0.0, u), v), 1e-12,
                          {'type': t, 'u': u, 'v': v, 'what': 'num=None'}, scale=500.0)


def _cross(spec, ctx):
    from pmutt import constants as c
    u = spec['unit']
    ctx.nontrivial()
    import numpy as np
    # the refusal does not depend on the number handed over (or on there being one)
    nums = [('float', 1.0), ('zero', 0), ('none', None), ('array', np.array([1.0, 2.0])), ('empty_array', np.array([])),
            ('empty_list', []), ('empty_tuple', ()), ('list', [2.0]), ('negative', -2.5)]
    for j, v in enumerate(spec['others']):
        ctx.raises('T4', (ValueError,), {'u': u, 'v': v}, c.convert_unit, num=1.0, initial=u, final=v)
        ctx.raises('T4', (ValueError,), {'u': v, 'v': u}, c.convert_unit, num=1.0, initial=v, final=u)
        nm, num = nums[j % len(nums)]
        ctx.cls('cross:num=' + nm)
        ctx.raises('T4', (ValueError,), {'num': nm}, c.convert_unit, num=num, initial=u, final=v)
        ctx.raises('T4', (ValueError,), {'num': nm, 'omitted': True}, c.convert_unit, initial=v, final=u)


def _si(spec, ctx):
    t, us = spec['type'], spec['units']
    ctx.nontrivial(len(us) >= 2)
    if t == 'temp':
        for u in us:
            for x in FIXED_TEMPS:
                r = _conv(ctx, 'T5', {'unit': u, 'to': 'K'}, x, u, 'K')
                if r is not core.NOVALUE:
                    ctx.close('T5', r, U.to_kelvin(x, u), 1e-12, {'unit': u, 'to': 'K'}, scale=500.0, x=x)
        return
    base = U.BASE[t]
    for u in us:
        m = {'unit': u}
        try:
            want = U.SI[t][u]
        except KeyError:
            ctx.inconc('T5', 'unit without SI definition in reference', unit=u)
            continue
        r = _conv(ctx, 'T5', m, 1.0, u, base)
        if r is not core.NOVALUE:
            ctx.close('T5', r / want, 1.0, tol_of(u), m, got=r, want=want)
        if u in U.SQUARES:
            f = _conv(ctx, 'T5', m, 1.0, U.SQUARES[u], 'm')
            if f is not core.NOVALUE and r is not core.NOVALUE:
                ctx.close('T5', r / f ** 2, 1.0, 2 * TOL_TABLE, dict(m, what='square_of_length'))
        if u in U.CUBES:
            f = _conv(ctx, 'T5', m, 1.0, U.CUBES[u], 'm')
            if f is not core.NOVALUE and r is not core.NOVALUE:
                ctx.close('T5', r / f ** 3, 1.0, 3 * TOL_TABLE, dict(m, what='cube_of_length'))
        if u == 'L atm':
            v = _conv(ctx, 'T5', m, 1.0, 'L', 'm3')
            p = _conv(ctx, 'T5', m, 1.0, 'atm', 'Pa')
            if core.NOVALUE not in (v, p, r):
                ctx.close('T5', r / (v * p), 1.0, 2 * TOL_TABLE, dict(m, what='volume_times_pressure'))
        if u in ('mL',):
            v = _conv(ctx, 'T5', m, 1.0, 'mL', 'L')
            if v is not core.NOVALUE:
                ctx.close('T5', v, 1e-3, 1e-12, dict(m, what='mL_per_L'), scale=1e-3)


def _const(spec, ctx):
    from pmutt import constants as c
    tab = spec['table']
    ctx.nontrivial()
    types = _types()
    if tab == 'R':
        rj = ctx.call('T6', {'table': 'R', 'key': 'J/mol/K'}, c.R, 'J/mol/K')
        for k in R_KEYS:
            m = {'table': 'R', 'key': k}
            v = ctx.call('T6', m, c.R, k)
            if v is core.NOVALUE:
                continue
            ctx.close('T6', v / U.R_in(k), 1.0, TOL_CODATA, m, got=v, want=U.R_in(k))
            e = k.split('/')[0]
            if e in c.type_dict and rj is not core.NOVALUE:
                # through pMuTT's own tables
                if k.endswith('/mol/K'):
                    w = ctx.call('T6', m, c.convert_unit, num=rj, initial='J', final=e)
                else:
                    w = ctx.call('T6', m, c.convert_unit, num=rj / c.Na, initial='J', final=e)
                if w is not core.NOVALUE:
                    ctx.close('T6', v / w, 1.0, TOL_TABLE, dict(m, what='via_convert_unit'), got=v, want=w)
        # keys the tree under test tabulates BEYOND the sixteen of the unchanged table (the table is local to
        # R()): every spelling 'energy/mol/K', 'energy/K', 'volume pressure/mol/K' built from the unit tables is
        # offered; a key the function accepts is a tabulated value and must equal its SI value
        cand = set()
        for e in sorted(U.SI['energy']):
            cand.update((e + '/mol/K', e + '/K'))
        for v_ in sorted(U.SI['volume']):
            for p_ in sorted(U.SI['pressure']):
                cand.update(('%s %s/mol/K' % (v_, p_), '%s %s/mol/K' % (p_, v_)))
        n_new = 0
        for k in sorted(cand - set(R_KEYS)):
            try:
                v = c.R(k)
            except Exception:
                continue                      # not tabulated
            n_new += 1
            m = {'table': 'R', 'key': 'beyond_the_16_original_keys'}
            try:
                if k.count(' ') == 1 and k.split(' ')[0] in U.SI['pressure']:
                    p_, rest = k.split(' ')
                    want = U.R_in('%s %s/mol/K' % (rest.split('/')[0], p_))
                else:
                    want = U.R_in(k)
            except KeyError:
                ctx.inconc('T6', 'tabulated key without SI definition in the reference', key=k)
                continue
            ctx.close('T6', v / want, 1.0, TOL_CODATA, m, key=k, got=v, want=want)
        ctx.cls('R:candidate_keys_probed')
        ctx.extra['R_keys_beyond_original'] = n_new
    elif tab == 'kb':
        kj = ctx.call('T6', {'table': 'kb', 'key': 'J/K'}, c.kb, 'J/K')
        for k in KB_KEYS:
            m = {'table': 'kb', 'key': k}
            v = ctx.call('T6', m, c.kb, k)
            if v is core.NOVALUE:
                continue
            ctx.close('T6', v / U.R_in(k), 1.0, TOL_CODATA, m, got=v, want=U.R_in(k))
            if kj is not core.NOVALUE:
                w = ctx.call('T6', m, c.convert_unit, num=kj, initial='J', final=k.split('/')[0])
                if w is not core.NOVALUE:
                    ctx.close('T6', v / w, 1.0, TOL_TABLE, dict(m, what='via_convert_unit'), got=v, want=w)
    elif tab == 'h':
        hj = ctx.call('T6', {'table': 'h', 'key': 'J s'}, c.h, 'J s')
        for k in H_KEYS:
            m = {'table': 'h', 'key': k}
            v = ctx.call('T6', m, c.h, k)
            if v is core.NOVALUE:
                continue
            want = U.H / U.SI['energy'][k.split(' ')[0]]
            ctx.close('T6', v / want, 1.0, TOL_CODATA, m, got=v, want=want)
            import numpy as np
            for flag, fname in ((True, 'True'), (1, '1'), (np.bool_(True), 'np.bool_')):
                hb = ctx.call('T6', dict(m, what='bar', flag=fname), c.h, k, bar=flag)
                if hb is not core.NOVALUE:
                    ctx.close('T6', hb * 2 * math.pi / v, 1.0, 1e-12, dict(m, what='bar', flag=fname))
            for flag, fname in ((False, 'False'), (0, '0'), (np.bool_(False), 'np.bool_False')):
                h0 = ctx.call('T6', dict(m, what='nobar', flag=fname), c.h, k, bar=flag)
                if h0 is not core.NOVALUE:
                    ctx.close('T6', h0 / v, 1.0, 1e-15, dict(m, what='nobar', flag=fname))
            if hj is not core.NOVALUE:
                w = ctx.call('T6', m, c.convert_unit, num=hj, initial='J', final=k.split(' ')[0])
                if w is not core.NOVALUE:
                    ctx.close('T6', v / w, 1.0, TOL_TABLE, dict(m, what='via_convert_unit'))
    elif tab == 'c':
        for k in C_KEYS:
            m = {'table': 'c', 'key': k}
            v = ctx.call('T6', m, c.c, k)
            if v is not core.NOVALUE:
                want = U.C_LIGHT / U.SI['length'][k.split('/')[0]]
                ctx.close('T6', v / want, 1.0, 1e-12, m, got=v, want=want)
    elif tab in ('m_e', 'm_p'):
        si = U.M_E if tab == 'm_e' else U.M_P
        for k in types.get('mass', []):
            m = {'table': tab, 'key': k}
            v = ctx.call('T6', m, getattr(c, tab), k)
            if v is not core.NOVALUE:
                ctx.close('T6', v / (si / U.SI['mass'][k]), 1.0, 1e-4, m, got=v)
    elif tab == 'P0':
        for k in types.get('pressure', []):
            m = {'table': 'P0', 'key': k}
            v = ctx.call('T6', m, c.P0, k)
            if v is not core.NOVALUE:
                ctx.close('T6', v / (1e5 / U.SI['pressure'][k]), 1.0, tol_of(k), m, got=v)
    elif tab == 'T0':
        for k in types.get('temp', []):
            m = {'table': 'T0', 'key': k}
            v = ctx.call('T6', m, c.T0, k)
            if v is not core.NOVALUE:
                ctx.close('T6', v, U.from_kelvin(298.15, k), 1e-12, m, scale=500.0, got=v)
    elif tab == 'V0':
        for k in types.get('volume', []):
            m = {'table': 'V0', 'key': k}
            v = ctx.call('T6', m, c.V0, k)
            if v is not core.NOVALUE:
                want = U.R_SI * 298.15 / 1e5 / U.SI['volume'][k]
                ctx.close('T6', v / want, 1.0, TOL_TABLE, m, got=v, want=want)
    elif tab == 'R=kbNa':
        for rk, kk in (('J/mol/K', 'J/K'), ('kJ/mol/K', 'kJ/K'), ('cal/mol/K', 'cal/K'),
                       ('kcal/mol/K', 'kcal/K')):
            m = {'table': 'R=kbNa', 'key': kk}
            r = ctx.call('T6', m, c.R, rk)
            k = ctx.call('T6', m, c.kb, kk)
            if core.NOVALUE not in (r, k):
                ctx.close('T6', r / (k * c.Na), 1.0, 1e-6, m, R=r, kb=k)
        for rk in ('eV/K', 'Eh/K', 'Ha/K'):
            m = {'table': 'R=kbNa', 'key': rk}
            r = ctx.call('T6', m, c.R, rk)
            k = ctx.call('T6', m, c.kb, rk)
            if core.NOVALUE not in (r, k):
                ctx.close('T6', r / k, 1.0, 1e-6, m, R=r, kb=k)
        ctx.close('T6', c.Na / U.NA, 1.0, 1e-6, {'table': 'Na', 'key': 'Na'})


SPEC_KINDS = ['energy', 'freq', 'temp', 'wavenumber']


def _spectro(spec, ctx):
    from pmutt import constants as c
    ctx.nontrivial()
    for x in spec['vals']:
        for a, b in itertools.permutations(SPEC_KINDS, 2):
            m = {'pair': a + '<->' + b}
            f = getattr(c, '%s_to_%s' % (a, b))
            g = getattr(c, '%s_to_%s' % (b, a))
            y = ctx.call('T7', m, f, x)
            if y is core.NOVALUE:
                continue
            z = ctx.call('T7', m, g, y)
            if z is not core.NOVALUE:
                ctx.close('T7', z / x, 1.0, 1e-12, m, x=x)
        for a, b, d in itertools.permutations(SPEC_KINDS, 3):
            m = {'path': '%s->%s->%s' % (a, b, d)}
            y = ctx.call('T7', m, getattr(c, '%s_to_%s' % (a, b)), x)
            if y is core.NOVALUE:
                continue
            z = ctx.call('T7', m, getattr(c, '%s_to_%s' % (b, d)), y)
            w = ctx.call('T7', m, getattr(c, '%s_to_%s' % (a, d)), x)
            if core.NOVALUE not in (z, w):
                ctx.close('T7', z / w, 1.0, 1e-12, m, x=x)
        # SI definitions of the helpers
        for name, want in (('energy_to_freq', x / U.H), ('energy_to_temp', x / U.KB),
                           ('energy_to_wavenumber', x / U.H / U.C_LIGHT / 100.),
                           ('wavenumber_to_temp', x * 100. * U.C_LIGHT * U.H / U.KB)):
            v = ctx.call('T7', {'helper': name}, getattr(c, name), x)
            if v is not core.NOVALUE:
                ctx.close('T7', v / want, 1.0, 2e-6, {'helper': name}, x=x)
        # rotational constant (cm-1) -> moment of inertia -> rotational temperature
        i = ctx.call('T7', {'helper': 'wavenumber_to_inertia'}, c.wavenumber_to_inertia, x)
        if i is not core.NOVALUE:
            th = ctx.call('T7', {'helper': 'inertia_to_temp'}, c.inertia_to_temp, i)
            wt = ctx.call('T7', {'helper': 'wavenumber_to_temp'}, c.wavenumber_to_temp, x)
            if core.NOVALUE not in (th, wt):
                ctx.close('T7', th / wt, 1.0, 2e-6, {'path': 'wavenumber->inertia->temp'}, x=x)
            ctx.close('T7', i / (U.H / (8 * math.pi ** 2 * x * 100. * U.C_LIGHT)), 1.0, 2e-6,
                      {'helper': 'wavenumber_to_inertia'}, x=x)
        d = ctx.call('T7', {'pair': 'debye<->einstein'}, c.debye_to_einstein, x)
        if d is not core.NOVALUE:
            e = ctx.call('T7', {'pair': 'debye<->einstein'}, c.einstein_to_debye, d)
            if e is not core.NOVALUE:
                ctx.close('T7', e / x, 1.0, 1e-12, {'pair': 'debye<->einstein'}, x=x)
            ctx.close('T7', d / x, (math.pi / 6.) ** (1. / 3.), 1e-12, {'helper': 'debye_to_einstein'})


ALIASES = {113: ['Nh', 'Uut'], 115: ['Mc', 'Uup'], 117: ['Ts', 'Uus'], 118: ['Og', 'Uuo']}


def _elements(spec, ctx):
    from pmutt import constants as c
    import pmutt
    from ase.data import chemical_symbols
    lo, hi = spec['Z']
    ctx.nontrivial(hi > lo)
    for Z in range(lo, hi + 1):
        syms = ALIASES.get(Z, [chemical_symbols[Z]])
        m = {'table': 'atomic_weight'}
        by_num = c.atomic_weight.get(Z)
        by_sym = [c.atomic_weight[s] for s in syms if s in c.atomic_weight]
        if by_num is None and not by_sym:
            ctx.extra.setdefault('elements_absent', {})[str(Z)] = 1
        else:
            ctx.check('T8', by_num is not None and len(by_sym) >= 1 and all(v == by_num for v in by_sym), m,
                      Z=Z, by_number=by_num, by_symbol=by_sym)
            if by_num is not None and by_sym:
                s = [s for s in syms if s in c.atomic_weight][0]
                for n in (1, 7):
                    mw = ctx.call('T8', {'table': 'get_molecular_weight'}, pmutt.get_molecular_weight, {s: n})
                    mz = ctx.call('T8', {'table': 'get_molecular_weight'}, pmutt.get_molecular_weight, {Z: n})
                    if core.NOVALUE not in (mw, mz):
                        ctx.close('T8', mw, n * by_num, 1e-12, {'table': 'get_molecular_weight', 'key': 'symbol'})
                        ctx.close('T8', mz, n * by_num, 1e-12, {'table': 'get_molecular_weight', 'key': 'number'})
        m = {'table': 'S_elements'}
        s_num = c.S_elements.get(Z)
        s_sym = [c.S_elements[s] for s in syms if s in c.S_elements]
        if s_num is None and not s_sym:
            ctx.extra.setdefault('S_elements_absent', {})[str(Z)] = 1
        else:
            ctx.check('T8', s_num is not None and len(s_sym) >= 1 and all(v == s_num for v in s_sym), m,
                      Z=Z, by_number=s_num, by_symbol=s_sym)


def _mw(spec, ctx):
    from pmutt import constants as c
    import pmutt
    el = spec['elements']
    ctx.nontrivial(len(el) >= 2)
    ctx.cls('formula:' + spec.get('style', 'plain'))
    want = math.fsum(c.atomic_weight[s] * n for s, n in el.items())
    got = ctx.call('T8', {'table': 'get_molecular_weight', 'key': 'dict'}, pmutt.get_molecular_weight, dict(el))
    if got is not core.NOVALUE:
        ctx.close('T8', got, want, 1e-12, {'table': 'get_molecular_weight', 'key': 'dict'})
    gf = ctx.call('T8', {'table': 'get_molecular_weight', 'key': 'formula'}, pmutt.get_molecular_weight,
                  spec['formula'])
    if gf is not core.NOVALUE:
        ctx.close('T8', gf, want, 1e-12, {'table': 'get_molecular_weight', 'key': 'formula'},
                  formula=spec['formula'])
    # history: a caller edits the composition it got back from parse_formula; a later lookup of the same
    # formula must not see the edit (no state shared between calls)
    d = ctx.call('T8', {'table': 'parse_formula', 'key': 'formula'}, pmutt.parse_formula, spec['formula'])
    if d is not core.NOVALUE and isinstance(d, dict) and d:
        ctx.check('T8', {k: v for k, v in d.items() if v != 0} == el, {'table': 'parse_formula', 'key': 'formula',
                                                                  'style': spec.get('style', 'plain')},
                  formula=spec['formula'], got=dict(d), want=el)
        k0 = sorted(d)[0]
        d[k0] = d[k0] + 5
        d['Xx'] = 1
        again = ctx.call('T8', {'table': 'get_molecular_weight', 'key': 'formula', 'history': 'after_edit'},
                         pmutt.get_molecular_weight, spec['formula'])
        if again is not core.NOVALUE:
            ctx.close('T8', again, want, 1e-12, {'table': 'get_molecular_weight', 'key': 'formula',
                                                 'history': 'after_edit'}, formula=spec['formula'])


def run_case(spec, ctx):
    k = spec['kind']
    ctx.cls('kind:' + k)
    {'algebra': _algebra, 'cross': _cross, 'si': _si, 'const': _const, 'spectro': _spectro,
     'elements': _elements, 'mw': _mw}[k](spec, ctx)

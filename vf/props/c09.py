"""C09  Kinetic parameters respect the reaction's thermodynamics.

B1 clamped activation quantities (ChemkinReaction, SurfaceReaction):
   X_act(dir) = max(0, X_TS - X_initial(dir), dX(dir)), X in {H, G}, both directions,
   dimensionless and dimensional form; without a transition state max(0, dX(dir)).
   The three candidates are rebuilt from every species' own getter (state sums).
B2 Bronsted-Evans-Polanyi transition state (pmutt.reaction.bep.BEP and the OpenMKM subclass):
   E_act(dir) = adjusted slope * descriptor + intercept (rebuilt here from the species);
   E_f - E_r = dH (dE) for the delta descriptors; the reaction's own transition-state
   enthalpy through the BEP "species" is the same barrier; U_BEP - U_reactants =
   H_BEP - H_reactants.
B3 pre-exponential factors: A > 0; Reaction.get_A(use_q=False) = (kB T/h) exp(dS_act/R + m);
   ChemkinReaction / SurfaceReaction: kB/h per unit temperature without TS (or without the
   entropy term) times sigma**(1 - n_surf), sigma chosen by sden_operation, in every unit
   system; ratio test between two site densities.
B1f the number actually handed to OpenMKM files: SurfaceReaction.to_cti (text) and to_omkm_yaml (dict) with Ea=None
   write Ea = max(0, barrier through the TS, reaction change) (G for ordinary steps; H or G by ads_act_method for
   adsorption steps), in the unit the entry carries; TS ordinary / parent BEP / OpenMKM BEP / none, incl. endothermic
   steps with a flat, low BEP (reaction change above the BEP barrier).
INV online invariant at PY_RETURN of the clamped getters: the value handed out is >= 0.
B1u/B2u/B3u  the same dimensional values against SI-derived constants (vf.ref.units) at a coarse
   tolerance: catches a wrong unit family without depending on pMuTT's own tables (C12's subject).
"""
import copy
import math

from vf import core
from vf.gen import reactions as RG
from vf.gen import species as S
from vf.ref import poly
from vf.ref import units as RU

ID = 'C09'
N = {'quick': 20000, 'thorough': 500000}
NT_RULE = ('three case kinds drawn per case index after a directed list: (clamp) C08 reactions of empirical species as '
           'ChemkinReaction / SurfaceReaction with 0-2 TS species, reaction enthalpy and TS offset either free or '
           'steered to -2..+2 eV / -1..+3 eV around the reactants; (bep) reactions of all three classes whose TS is a '
           'BEP (8 descriptors, slope 0-1, intercept 0-60 kcal/mol, parent and OpenMKM class); (A) Reaction.get_A by '
           'the entropy route and ChemkinReaction / SurfaceReaction.get_A with 1-2 catalyst sites (1e-11..1e-8 '
           'mol/cm2), 0-3 surface reactants, 4 site-density operations, unit strings and Units objects; 25 % of the '
           'bep cases share the BEP object with 1-2 sibling reactions (drawn evaluation order, first one revisited); '
           '40 % of the site cases use surface names related to the bulk species name.  '
           'non-trivial = a clamp is active (max picks 0 or delta), or a reverse-direction value was decided, or '
           'n_surf != 1; distinct = distinct canonical JSON')
REQUIRED_ORACLES = ['B1', 'B2', 'B3', 'B1u', 'B2u', 'B3u', 'INV', 'B1f']
_WIN = ['win:%s:%s:%s' % (q, d, w) for q in 'HG' for d in ('fwd', 'rev') for w in ('zero', 'barrier', 'delta')]
DESCRIPTORS = ['delta_H', 'rev_delta_H', 'reactants_H', 'products_H',
               'delta_E', 'rev_delta_E', 'reactants_E', 'products_E']
# constructor options that do not appear in the statement's formulas: they must not change H_act / G_act / A
OPTIONS = {
    'ChemkinReaction': {'is_adsorption': [False, True], 'beta': ['default', 0, 0.5, 1, 2],
                        'sticking_coeff': ['default', 0.1, 1.0]},
    'SurfaceReaction': {'is_adsorption': [False, True], 'beta': ['default', 0, 0.5, 1, 2],
                        'sticking_coeff': ['default', 0.1, 1.0], 'use_motz_wise': ['default', True],
                        'direction': ['default', 'cleavage', 'synthesis'], 'id': ['default', 'r_0007', 12]},
}
OPT_CLASSES = ['opt:%s:%s=%s' % (c, k, v) for c in sorted(OPTIONS) for k in sorted(OPTIONS[c]) for v in OPTIONS[c][k]]
REQUIRED_CLASSES = (['B1:ChemkinReaction', 'B1:SurfaceReaction', 'B1:ts', 'B1:no_ts', 'B1:bep_ts', 'B1:ts_attached_later', 'exo', 'endo',
                     'barrierless', 'high_barrier'] + _WIN +
                    ['desc:' + d for d in DESCRIPTORS] +
                    ['bep:BEP', 'bep:omkm.BEP', 'slope:0', 'slope:1', 'slope:inner', 'B2:Reaction',
                     'B2:ChemkinReaction', 'B2:SurfaceReaction', 'bep:shared', 'bep:shared:first=main',
                     'bep:shared:first=sibling', 'entropy_state:default', 'entropy_state:reactants',
                     'entropy_state:products', 'entropy_state:None'] +
                    ['A:Reaction', 'A:ChemkinReaction', 'A:SurfaceReaction', 'A:no_ts', 'A:no_entropy', 'A:entropy',
                     'n_surf:0', 'n_surf:1', 'n_surf:2', 'n_surf:3', 'op:sum', 'op:min', 'op:max', 'op:mean',
                     'sites:2', 'units:str', 'units:Units', 'gas+surf', 'bulk_reactant', 'm:None',
                     'bulk_reactant:ChemkinReaction', 'bulk_reactant:SurfaceReaction',
                     'names:substring_of_bulk:ChemkinReaction', 'names:substring_of_bulk:SurfaceReaction',
                     'names:superstring_of_bulk'] + OPT_CLASSES +
                    ['dir:omkm.BEP=%s:rxn=%s' % (a, b) for a in (None, 'cleavage', 'synthesis')
                     for b in (None, 'cleavage', 'synthesis')] +
                    ['dir:BEP=None:rxn=%s' % b for b in (None, 'cleavage', 'synthesis')] +
                    ['attr:n_sites>1:ChemkinReaction', 'attr:n_sites>1:SurfaceReaction',
                     'attr:gas_cat_site:ChemkinReaction', 'attr:gas_cat_site:SurfaceReaction',
                     'attr:gas_cat_site:non_adsorption:ChemkinReaction', 'attr:notes_smiles'] +
                    ['ea_file', 'ea_file:same_TP_differing_blocks', 'ea_file:columns_differ'] +
                    ['ea_file:method=' + m for m in ('get_GoRT_act', 'get_HoRT_act', 'get_EoRT_act')] +
                    ['B1:adsorption:no_ts:endo_dir:ChemkinReaction', 'B1:adsorption:no_ts:endo_dir:SurfaceReaction',
                     'B1:adsorption:ts', 'B1:E_act:no_ts'] +
                    ['A:%s:beta=%s:%s' % (c, b, t) for c in ('ChemkinReaction', 'SurfaceReaction')
                     for b in ('default', 0, 0.5, 1, 2) for t in ('ts', 'no_ts')] +
                    ['A:%s:is_adsorption=%s' % (c, a) for c in ('ChemkinReaction', 'SurfaceReaction')
                     for a in (False, True)] +
                    ['eaf:ts=ts', 'eaf:ts=none', 'eaf:ts=bep:BEP', 'eaf:ts=bep:omkm.BEP'] +
                    ['eaf:ts=%s:winner=%s' % (t, w) for t in ('ts', 'bep:BEP', 'bep:omkm.BEP')
                     for w in ('zero', 'barrier', 'delta')] +
                    ['eaf:ts=none:winner=zero', 'eaf:ts=none:winner=delta', 'eaf:writer=to_cti',
                     'eaf:writer=to_omkm_yaml', 'eaf:units=str', 'eaf:units=Units', 'eaf:adsorption:get_H_act',
                     'eaf:adsorption:get_G_act', 'eaf:non_adsorption'])
REQUIRED_PROBES = ['ChemkinReaction.get_HoRT_act', 'ChemkinReaction.get_H_act', 'ChemkinReaction.get_GoRT_act',
                   'ChemkinReaction.get_G_act', 'SurfaceReaction.get_HoRT_act', 'SurfaceReaction.get_H_act',
                   'SurfaceReaction.get_GoRT_act', 'SurfaceReaction.get_G_act', 'BEP._get_descriptor_val',
                   'BEP._get_adjusted_slope', 'BEP.get_E_act', 'BEP.get_UoRT', 'BEP.get_HoRT', 'Reaction.get_A',
                   'ChemkinReaction.get_A', 'SurfaceReaction.get_A', 'ChemkinReaction._get_n_surf',
                   'SurfaceReaction._get_n_surf', 'SurfaceReaction.to_cti', 'SurfaceReaction.to_omkm_yaml']
ASSUMPTIONS = [
    'B1f: the activation energy of a SurfaceReaction entry (Ea=None, A=None) is read back from the to_cti text (third '
    'number of the [A, b, Ea] / stick(s, b, Ea) group, written with 6 significant digits: tolerance 5e-4 relative) and '
    'from the to_omkm_yaml dict (rate-constant / sticking-coefficient -> Ea; a float in act_energy_unit, or the string '
    '"<value> <unit>" when a Units object is given: the unit the entry carries is the one used to convert it).  It is '
    'compared with max(0, barrier, change) rebuilt from the species at the global T, P handed to the writer (G for '
    'ordinary steps; H or G for adsorption steps according to ads_act_method).  One reactant (coefficient >= 1, not a '
    'gas if possible) is put on an InteractingInterface so that the pre-exponential of the same entry can be written; '
    'adsorption steps without a gas reactant are only read through to_cti (to_omkm_yaml refuses them)',
    'ChemkinReaction / SurfaceReaction are built from empirical species (they need a phase); BEP cases with an '
    'electronic-energy descriptor use StatMech species (only they have get_EoRT)',
    'dimensional values are compared with dimensionless * pmutt.constants.R(units) * T at 1e-9 (the unit tables are '
    'C12\'s subject) and additionally with an SI-derived gas constant / conversion factor at 1e-4 (catches a wrong '
    'unit family; CODATA-2014 vs 2019 constants differ by 3e-7, pMuTT\'s kcal<->kJ factor by 1.1e-6)',
    'BEP direction rule asserted: native direction (forward; reverse for rev_delta_*) uses the slope, the other '
    'direction of a *delta* descriptor uses slope-1 (so that E_f - E_r = delta).  For the state descriptors '
    '(reactants_*/products_*) only the native direction is asserted; their rev=True value is telemetry, because the '
    'statement restricts the forward/reverse relation to the delta descriptors',
    'reverse barrier through the transition-state enthalpy (H_BEP - H_products) is compared with the relation only '
    'for delta_H / rev_delta_H (for the E descriptors it differs by dH - dE by construction)',
    'G through a BEP transition state uses the documented BEP option entropy_state in {reactants (default), products, '
    'None}: S_TS = S(reactants) / S(products) / 0 and G_TS = H_reactants + E_f/RT - S_TS, rebuilt from the species; '
    'checked on BEP.get_SoR / get_GoRT, the G clamps (ChemkinReaction / SurfaceReaction) and Reaction.get_GoRT_act, with '
    'global conditions only (the reaction strips per-species blocks before calling the BEP "species", so the BEP\'s own '
    'state evaluation does not see them -- routing is C08\'s subject)',
    'a shared BEP object (one BEP as transition state of 2-3 reactions) must give every clause for each reaction with '
    'that reaction\'s own descriptor, in any evaluation order (the first reaction is revisited after its siblings)',
    'surface species whose names are substrings / superstrings of their site\'s bulk species name (PT, P, B, (B), '
    'PT(B)H on bulk PT(B)) are surface reactants like any other; only the species named exactly like the bulk is bulk',
    'surface reactants carry integer coefficients (0-3 counting stoichiometry); sigma = operation over the site '
    'densities of the surface reactants, each repeated by its coefficient; bulk species and gas species do not count',
    'ChemkinReaction.get_A with surface reactants is driven with NASA-7 reactants only (Chemkin thermdat species; '
    'Nasa9/Shomate have no cat_site attribute and _get_n_surf raises AttributeError on them -- telemetry, not asserted)',
    'SurfaceReaction.get_A with no surface reactant refuses with ValueError (no site density available); counted as '
    'telemetry, not as a violation; get_A(rev=True) is not driven for the site-density clauses',
    'constructor options that are not in the statement\'s formulas (is_adsorption, beta, sticking_coeff, and for '
    'SurfaceReaction use_motz_wise, direction, id) are swept as a stratum on the clamp, bep and site cases: H_act, G_act '
    'and A are compared with the same species-based references whatever their value (preset A / Ea are not generated)',
    'ChemkinReaction without a transition state: get_EoRT_act(del_m) = clamped reaction enthalpy + (1 - del_m) and '
    'get_E_act(del_m=1) its dimensional form (documented in its docstring); not driven on SurfaceReaction, which has no '
    'such no-TS branch',
    'species attributes that are not in the formulas (n_sites >= 2 of adsorbates, a gas reactant carrying a cat_site, '
    'notes, smiles) are swept on the site cases of both classes and must not move A: in particular a gas reactant with '
    'a cat_site neither counts in n_surf nor contributes its site density to sigma (formula value asserted for every '
    'n_surf and operation; fixed in /repo by d35513d)',
    'phase spellings other than G / S (documented g, gas; s) are not generated for ChemkinReaction: _is_gas_phase and '
    '_get_n_surf compare case-sensitively, so an all-gas reaction spelled g gives A = 0 / ValueError (reported, not asserted)',
    'direction labels (None / cleavage / synthesis) of the SurfaceReaction and of the BEP are drawn independently (all 9 '
    'pairs with the OpenMKM BEP, 3 with the parent BEP are constructible): every B2 relation holds for every pair',
    'write_EA (EAs.inp / EAg.inp, the hand-over to Chemkin) is driven as one call with several run conditions sharing T '
    'and P and differing in <name>_kwargs blocks: the trailing numeric columns of every reaction line equal the clamp '
    'reference at that run\'s conditions (get_GoRT_act / get_HoRT_act; get_EoRT_act only without a TS).  The file layout '
    'is C06\'s subject and is not checked here',
    'q-route of get_A (use_q=True) is only checked for sign; with empirical species get_q is the _ModelBase default 1',
    'exp arguments beyond +-650 are skipped (telemetry)',
]

ACT_UNITS = ['J/mol', 'kJ/mol', 'cal/mol', 'kcal/mol', 'eV', 'Eh', 'Ha', 'L atm/mol', 'L bar/mol', 'cm3 kPa/mol']
BEP_UNITS = ['kcal/mol', 'kJ/mol', 'J/mol', 'cal/mol', 'eV/molecule', 'Eh/molecule']
QUANTITIES = ['molec', 'mol', 'molecule']
LENGTHS = ['cm', 'm']
OPS = ['sum', 'min', 'max', 'mean']
EV_K = 11604.518          # 1 eV / kB in K
TOL = 1e-9
TOL_REF = 1e-4          # unit-family checks against SI-derived constants (B1u, B3u)
TOL_REF_BEP = 1e-2      # B2u: pMuTT's kcal/mol -> eV/molecule factor is 7.8e-5 off the SI value (C12's subject)
EXP_MAX = 650.0


def _f(x):
    import numpy as np
    return float(np.squeeze(x))


def _sig(x, n=10):
    return float('%.*g' % (n, x))


# =========================================================================== generator helpers
def _nasa(name, phase, cp, a6, a7):
    a = [cp, 0.0, 0.0, 0.0, 0.0, a6, a7]
    return {'type': 'Nasa', 'name': name, 'T_low': 100.0, 'T_mid': 1000.0, 'T_high': 4000.0,
            'a_low': list(a), 'a_high': list(a), 'phase': phase, 'elements': {'H': 1}}


def _statmech(name, pe, wn, gas=False):
    sp = {'type': 'StatMech', 'name': name, 'trans': None, 'rot': None, 'nucl': None,
          'vib': {'type': 'HarmonicVib', 'vib_wavenumbers': list(wn), 'imaginary_substitute': None},
          'elec': {'type': 'GroundStateElec', 'potentialenergy': pe, 'spin': 0}, 'elements': {'H': 1}}
    if gas:
        sp['trans'] = {'type': 'FreeTrans', 'n_degrees': 3, 'molecular_weight': 28.0}
        sp['rot'] = {'type': 'RigidRotor', 'symmetrynumber': 1, 'geometry': 'linear', 'rot_temperatures': [2.8]}
    return sp


def _ref_HoRT(sp, T):
    """Reference H/RT of an empirical species spec (generator steering only, never an oracle)."""
    t = sp['type']
    if t == 'Nasa':
        return poly.nasa7_HoRT(sp['a_low'] if T < sp['T_mid'] else sp['a_high'], T)
    if t == 'Nasa9':
        for seg in sp['nasas']:
            if seg['T_low'] <= T <= seg['T_high']:
                return poly.nasa9_HoRT(seg['a'], T)
        return poly.nasa9_HoRT(sp['nasas'][-1]['a'], T)
    if t == 'Shomate':
        return poly.shomate_HoRT(sp['a'], T, RU.R_in(sp['units']))
    raise KeyError(t)


def _shift_H(sp, dh, T):
    """Move the enthalpy integration constant of a species spec so that H/RT(T) changes by dh."""
    t = sp['type']
    if t == 'Nasa':
        sp['a_low'] = list(sp['a_low']); sp['a_high'] = list(sp['a_high'])
        sp['a_low'][5] = _sig(sp['a_low'][5] + dh * T, 12)
        sp['a_high'][5] = _sig(sp['a_high'][5] + dh * T, 12)
    elif t == 'Nasa9':
        for seg in sp['nasas']:
            seg['a'] = list(seg['a'])
            seg['a'][7] = _sig(seg['a'][7] + dh * T, 12)
    elif t == 'Shomate':
        sp['a'] = list(sp['a'])
        sp['a'][5] = _sig(sp['a'][5] + dh * RU.R_in(sp['units']) * T / 1000., 12)
    else:
        raise KeyError(t)


def _steer(rng, spec):
    """Put the reaction enthalpy at -2..+2 eV and the TS at -1..+3 eV above the reactants
    (sometimes a few meV from a tie) by editing integration constants of one product / the TS."""
    T = spec['cond']['T']
    sp = spec['species']
    if any(s['type'] == 'StatMech' for s in sp.values()):
        return None
    rn = set(n for n, _ in spec['reactants'])
    tn = set(n for n, _ in (spec['ts'] or []))

    def tot(side):
        return sum(nu * _ref_HoRT(sp[n], T) for n, nu in side)
    small = lambda: rng.choice([-1, 1]) * S.logu(rng, 1e-4, 3e-2, 3)
    dH = rng.choice([round(rng.uniform(-2, 2), 3), round(rng.uniform(-0.5, 0.5), 3), small()])
    out = {'dH_eV': None, 'barrier_eV': None}
    cand = [(n, nu) for n, nu in spec['products'] if n not in rn and n not in tn and
            sum(1 for m, _ in spec['products'] if m == n) == 1]
    if cand:
        n, nu = cand[-1]
        _shift_H(sp[n], ((tot(spec['reactants']) + dH * EV_K / T) - tot(spec['products'])) / nu, T)
        out['dH_eV'] = dH
    if spec['ts']:
        b = rng.choice([round(rng.uniform(-1, 3), 3), round(rng.uniform(-1, 3), 3), small(),
                        (out['dH_eV'] or 0.0) + small()])
        n, nu = spec['ts'][-1]
        _shift_H(sp[n], ((tot(spec['reactants']) + b * EV_K / T) - tot(spec['ts'])) / nu, T)
        out['barrier_eV'] = b
    return out


def _gen_options(rng, cls, **force):
    out = {}
    for k, vals in OPTIONS.get(cls, {}).items():
        v = force[k] if k in force else rng.choice(vals)
        if v != 'default':
            out[k] = v
    return out


def _opt_classes(ctx, spec):
    cls = spec['cls']
    ex = spec.get('extra') or {}
    for k in OPTIONS.get(cls, {}):
        ctx.cls('opt:%s:%s=%s' % (cls, k, ex.get(k, 'default')))


def _gen_clamp(rng, cls=None, has_ts=None):
    cls = cls or rng.choice(['ChemkinReaction', 'SurfaceReaction'])
    if has_ts is None:
        has_ts = rng.random() < 0.7
    spec = RG.gen_reaction(rng, flavor='empirical', cls=cls, ts=has_ts)
    spec['kind'] = 'clamp'
    spec['extra'] = _gen_options(rng, cls)
    spec['cond'] = RG.gen_conditions(rng, spec)
    spec['steer'] = _steer(rng, spec) if rng.random() < 0.7 else None
    spec['units'] = rng.sample(ACT_UNITS, 2)
    # history: the transition state is attached through the public setters after construction
    spec['ts_history'] = 'attach_later' if (has_ts and rng.random() < 0.25) else None
    return spec


def _gen_bep(rng, descriptor=None, rcls=None, bep_cls=None, slope=None, shared=None):
    descriptor = descriptor or rng.choice(DESCRIPTORS)
    if descriptor.endswith('_E'):
        rcls = rcls or rng.choice(['Reaction', 'SurfaceReaction'])
        flavor = 'statmech'
    else:
        rcls = rcls or rng.choice(['Reaction', 'ChemkinReaction', 'SurfaceReaction'])
        flavor = 'empirical' if rcls == 'ChemkinReaction' else rng.choice(['statmech', 'mixed', 'empirical'])
    spec = RG.gen_reaction(rng, flavor=flavor, cls=rcls, ts=False)
    spec['kind'] = 'bep'
    # direction labels ('cleavage' / 'synthesis' / None) are drawn independently for the reaction and the BEP
    spec['extra'] = _gen_options(rng, rcls)
    spec['rxn_direction_explicit'] = True
    spec['cond'] = RG.gen_conditions(rng, spec)
    if flavor != 'statmech' and rng.random() < 0.6:
        # realistic reaction enthalpy so that slope*dH and the intercept are comparable
        spec['ts'] = None
        spec['steer'] = _steer(rng, spec)
    if slope is None:
        slope = rng.choice([0.0, 1.0, round(rng.uniform(0, 1), 3), round(rng.uniform(0, 1), 3),
                            round(rng.uniform(0, 1), 3)])
    bep_cls = bep_cls or rng.choice(['BEP', 'omkm.BEP'])
    spec['bep'] = {'name': 'BEP_%s' % descriptor, 'cls': bep_cls, 'slope': slope,
                   'intercept': rng.choice([0.0, 60.0, round(rng.uniform(0, 60), 3), round(rng.uniform(0, 60), 3)]),
                   'descriptor': descriptor,
                   'direction': rng.choice(['cleavage', 'synthesis', None]) if bep_cls == 'omkm.BEP' else None}
    if rng.random() < 0.2:
        # flat, low relation: on an endothermic step the reaction change exceeds the BEP barrier
        spec['bep']['slope'] = rng.choice([0.0, round(rng.uniform(0, 0.2), 3)])
        spec['bep']['intercept'] = rng.choice([0.0, round(rng.uniform(0, 8), 3)])
    spec['ts'] = [[spec['bep']['name'], 1.0]]
    spec['units'] = rng.sample(ACT_UNITS, 2)
    spec['bep_units'] = rng.sample(BEP_UNITS, 2)
    # one BEP object is the transition state of a family of reactions (normal use): 1-2 siblings of the same
    # class with their own species (= their own descriptor value), evaluated in a drawn order, revisiting
    if (rng.random() < 0.25) if shared is None else shared:
        sibs = []
        for _ in range(rng.choice([1, 1, 2])):
            sb = RG.gen_reaction(rng, flavor=flavor, cls=rcls, ts=False)
            if flavor != 'statmech' and rng.random() < 0.6:
                sb['cond'] = spec['cond']
                _steer(rng, sb)
            sibs.append({'species': sb['species'], 'reactants': sb['reactants'], 'products': sb['products']})
        spec['siblings'] = sibs
        n = len(sibs) + 1
        first = rng.randrange(n)
        order = [first] + [i for i in rng.sample(range(n), n) if i != first]
        spec['order'] = order + [order[0]] + ([order[1]] if rng.random() < 0.5 else [])
    spec['entropy_states'] = rng.sample(['default', 'reactants', 'products', 'None'], 2)
    return spec


def _gen_A_reaction(rng):
    spec = RG.gen_reaction(rng, cls='Reaction', ts=True)
    spec['kind'] = 'A_reaction'
    spec['cond'] = RG.gen_conditions(rng, spec)
    spec['m'] = rng.choice([0, 0, 1, 2, 3, None])
    return spec


EA_METHODS = ['get_GoRT_act', 'get_HoRT_act', 'get_EoRT_act']


def _gen_ea_file(rng, method=None):
    """One write_EA call (EAs.inp / EAg.inp: the hand-over of the activation quantities to Chemkin): 2-4
    ChemkinReactions, several run conditions of which at least two share T and P and differ only in
    species-specific '<name>_kwargs' blocks (a partial-pressure scan)."""
    rxns = []
    for _ in range(rng.randint(2, 4)):
        r = RG.gen_reaction(rng, flavor='empirical', cls='ChemkinReaction', ts=rng.random() < 0.6)
        r['extra'] = _gen_options(rng, 'ChemkinReaction')
        rxns.append({k: r[k] for k in ('cls', 'flavor', 'species', 'reactants', 'products', 'ts', 'extra')})
    T, P = round(rng.uniform(300, 1500), 1), S.logu(rng, 1e-2, 10, 3)
    gas = sorted(set(n for r in rxns for n, sp in r['species'].items() if sp.get('phase') == 'G'
                     and not n.endswith('_TS')))
    pool = gas or sorted(set(n for r in rxns for n in r['species']))
    conds = [{'T': T, 'P': P}]
    for _ in range(rng.randint(1, 3)):
        c = {'T': T, 'P': P}
        for g in rng.sample(pool, min(len(pool), rng.choice([1, 1, 2]))):
            c['%s_kwargs' % g] = {'P': S.logu(rng, 1e-4, 10, 3)}
        conds.append(c)
    if rng.random() < 0.5:
        conds.append({'T': round(T * rng.uniform(1.05, 1.5), 1), 'P': P})
    if rng.random() < 0.3:
        conds.append(copy.deepcopy(conds[rng.randrange(len(conds))]))
    rng.shuffle(conds)
    return {'kind': 'ea_file', 'cls': 'ChemkinReaction', 'reactions': rxns, 'conditions': conds,
            'method': method or rng.choice(EA_METHODS + ['get_GoRT_act']),
            'ads_method': rng.choice(['get_HoRT_act', 'get_GoRT_act']), 'to_file': rng.random() < 0.4}


SURF_POOL = ['H(S)', 'O(S)', 'CO(S)', 'OH(S)', 'PT(S)', 'H2O(S)', 'CH3(S)', 'NH2(S)', 'COOH(S)']
GAS_POOL = ['H2', 'O2', 'CO', 'H2O', 'N2', 'CH4', 'CO2', 'NH3']
PARTS = {0: [[]], 1: [[1]], 2: [[2], [1, 1]], 3: [[3], [2, 1], [1, 2], [1, 1, 1]]}


def _gen_A_surface(rng, cls=None, n_surf=None, op=None, nsites=None, has_ts=None, route=None, bulk=None,
                   related=None, options=None, attrs=None):
    cls = cls or rng.choice(['ChemkinReaction', 'SurfaceReaction'])
    if n_surf is None:
        n_surf = rng.choice([0, 1, 2, 2, 3, 3] if cls == 'ChemkinReaction' else [0, 1, 1, 2, 2, 2, 3, 3, 3])
    nsites = nsites or rng.choice([1, 2, 2])
    keys = rng.sample(['PT', 'NI', 'CU', 'RU'], nsites)
    sites = {}
    for k in keys:
        sites[k + '_SURF'] = {'site_density': S.logu(rng, 1e-11, 1e-8, 4), 'density': round(rng.uniform(2, 22), 2),
                              'bulk': k + '(B)'}
    skeys = sorted(sites)
    parts = list(rng.choice(PARTS[n_surf]))
    surf_names = rng.sample(SURF_POOL, len(parts) + 2)
    # realistic related names: the free site 'PT' / 'PT(S)', adsorbates 'P', 'T', 'B', '(B)' ... are substrings /
    # prefixes of the bulk species 'PT(B)' of their site; 'PT(B)H' contains it
    related = (rng.random() < 0.4) if related is None else related
    gas_names = rng.sample(GAS_POOL, 4)
    site_of, species = {}, {}
    reactants = []
    only_nasa = cls == 'ChemkinReaction'

    def add(name, phase, site=None, nasa=False):
        species[name] = RG.gen_empirical(rng, name, kind='Nasa' if (nasa or only_nasa) else None, phase=phase)
        if site is not None:
            site_of[name] = site
    for i, k in enumerate(parts):
        nm = surf_names[i]
        # with two sites, spread the reactants over them
        site = skeys[i % len(skeys)] if len(parts) > 1 else rng.choice(skeys)
        if related and (i == 0 or rng.random() < 0.5):
            b = sites[site]['bulk']                 # e.g. 'PT(B)'
            metal = b[:-3]
            cands = [metal, metal[0], metal[1:], 'B', '(B)', metal + '(', b[1:], metal + '(S)', b + 'H', 'H' + b,
                     b.lower()]
            cands = [c for c in cands if c and c != b and c not in species and c not in surf_names]
            if cands:
                nm = rng.choice(cands[:7]) if rng.random() < 0.8 else rng.choice(cands)
        add(nm, 'S', site=site)
        reactants.append([nm, rng.choice([k, float(k)])])
    ngas = rng.choice([1, 1, 2]) if n_surf == 0 else rng.choice([0, 0, 1, 1, 2])
    # species attributes the formulas do not mention: a gas reactant carrying a catalyst site (records built from
    # one template), site occupancy n_sites of adsorbates, notes / smiles
    if attrs is None:
        attrs = {'gas_cat_site': rng.random() < 0.3, 'n_sites': rng.random() < 0.35, 'meta': rng.random() < 0.3}
    gas_site_of = {}
    for i in range(ngas):
        add(gas_names[i], 'G', nasa=bool(attrs.get('gas_cat_site')))
        if attrs.get('gas_cat_site') and (i == 0 or rng.random() < 0.5):
            gas_site_of[gas_names[i]] = rng.choice(skeys)
        reactants.append([gas_names[i], rng.choice(RG.STOICH)])
    if bulk is None:
        bulk = n_surf > 0 and rng.random() < 0.25
    if bulk:
        k = rng.choice(skeys)
        add(sites[k]['bulk'], 'S', site=k, nasa=True)
        reactants.append([sites[k]['bulk'], 1])
    rng.shuffle(reactants)
    products = []
    for i in range(rng.choice([1, 2])):
        if rng.random() < 0.6:
            nm = surf_names[len(parts) + i]
            add(nm, 'S', site=rng.choice(skeys))
        else:
            nm = gas_names[2 + i]
            add(nm, 'G')
        products.append([nm, rng.choice(RG.STOICH)])
    if has_ts is None:
        has_ts = rng.random() < 0.6
    ts = None
    if has_ts:
        nm = 'X_TS'
        add(nm, 'S', site=rng.choice(skeys))
        ts = [[nm, 1]]
    if route is None:
        route = rng.choice(['no_entropy', 'entropy', 'entropy', 'default'])
    if attrs.get('n_sites'):
        first = True
        for nm in sorted(species):
            if nm in site_of and nm not in [st['bulk'] for st in sites.values()] and (first or rng.random() < 0.5):
                species[nm]['n_sites'] = rng.choice([2, 2, 3, 1])
                first = False
    if attrs.get('meta'):
        for nm in sorted(species):
            if rng.random() < 0.5:
                species[nm]['notes'] = rng.choice(['from table 3', 'DFT PBE-D3', 'n_sites=2'])
                species[nm]['smiles'] = rng.choice(['C(=O)O', '[H][H]', 'O'])
    q, ln = rng.choice(QUANTITIES), rng.choice(LENGTHS)
    spec = {'kind': 'A_surface', 'gas_site_of': gas_site_of, 'cls': cls, 'flavor': 'empirical', 'species': species, 'reactants': reactants,
            'products': products, 'ts': ts, 'extra': _gen_options(rng, cls, **(options or {})), 'sites': sites,
            'site_of': site_of,
            'sden_operation': op or rng.choice(OPS), 'route': route, 'm': rng.choice([0, 0, 1]),
            'units': {'quantity': q, 'length': ln}, 'gas_phase_obj': rng.random() < 0.3,
            'factor': rng.choice([10.0, 0.1, 2.0, round(rng.uniform(0.2, 5), 3)])}
    spec['cond'] = RG.gen_conditions(rng, spec, with_blocks=rng.random() < 0.3)
    return spec


# =========================================================================== directed cases
def directed(tier):
    import random
    D = []
    # --- B1: sweep of the TS offset (a6 of the TS polynomial) x exo/endo x class, all units
    for cls in ('ChemkinReaction', 'SurfaceReaction'):
        for dprod in (-9000.0, 9000.0):                         # a6 of the product: exo / endo
            for ts_a6 in (None, -30000.0, -3000.0, 4500.0 if dprod > 0 else -4500.0, 0.0, 40000.0):
                species = {'A': _nasa('A', 'G', 3.5, -1000.0, 20.0), 'B(S)': _nasa('B(S)', 'S', 2.0, -2000.0, 3.0),
                           'C(S)': _nasa('C(S)', 'S', 4.5, -3000.0 + dprod, 8.0)}
                spec = {'kind': 'clamp', 'cls': cls, 'flavor': 'empirical', 'species': species,
                        'reactants': [['A', 1], ['B(S)', 1]], 'products': [['C(S)', 1]], 'ts': None, 'extra': {},
                        'cond': {'T': 500.0}, 'steer': None, 'units': list(ACT_UNITS)}
                if ts_a6 is not None:
                    species['AB_TS'] = _nasa('AB_TS', 'S', 4.0, -3000.0 + ts_a6, 6.0)
                    spec['ts'] = [['AB_TS', 1]]
                D.append(spec)
    # pinned witness: ChemkinReaction.get_H_act(..., rev=True) (endothermic forward, no TS)
    D.append({'kind': 'clamp', 'cls': 'ChemkinReaction', 'flavor': 'empirical',
              'species': {'H2': _nasa('H2', 'G', 3.5, -1000.0, 15.0), 'H': _nasa('H', 'G', 2.5, 25000.0, -0.5)},
              'reactants': [['H2', 1]], 'products': [['H', 2]], 'ts': None, 'extra': {},
              'cond': {'T': 298.15, 'P': 1.0}, 'steer': None, 'units': ['kcal/mol', 'kJ/mol']})
    # --- B2: every descriptor x both BEP classes (E descriptors on StatMech species)
    k = 0
    for bep_cls in ('BEP', 'omkm.BEP'):
        for d in DESCRIPTORS:
            k += 1
            slope = [0.0, 0.35, 1.0, 0.8][k % 4]
            if d.endswith('_E'):
                species = {'CO(S)': _statmech('CO(S)', -1.6, [2050.0, 420.0, 380.0, 60.0]),
                           'O(S)': _statmech('O(S)', -0.9, [480.0, 390.0, 350.0]),
                           'CO2': _statmech('CO2', -3.3, [2350.0, 1330.0, 667.0, 667.0], gas=True)}
                rcls = ['Reaction', 'SurfaceReaction'][k % 2]
            else:
                species = {'CO(S)': _nasa('CO(S)', 'S', 4.0, -16000.0, 5.0), 'O(S)': _nasa('O(S)', 'S', 2.5, -12000.0, 1.0),
                           'CO2': _nasa('CO2', 'G', 5.5, -36000.0, 25.0)}
                rcls = ['Reaction', 'ChemkinReaction', 'SurfaceReaction'][k % 3]
            D.append({'kind': 'bep', 'cls': rcls, 'flavor': 'directed', 'species': species,
                      'reactants': [['CO(S)', 1], ['O(S)', 1]], 'products': [['CO2', 1]],
                      'ts': [['BEP_' + d, 1.0]], 'extra': {}, 'cond': {'T': 650.0, 'P': 2.0}, 'steer': None,
                      'bep': {'name': 'BEP_' + d, 'cls': bep_cls, 'slope': slope, 'intercept': [0.0, 22.5, 60.0][k % 3],
                              'descriptor': d, 'direction': 'synthesis' if bep_cls == 'omkm.BEP' else None},
                      'units': ['kcal/mol', 'eV'], 'bep_units': list(BEP_UNITS)})
    # --- B2: direction labels of the reaction x the BEP (every constructible pair)
    tmpl = [c for c in D if c['kind'] == 'bep' and c['bep']['descriptor'] == 'delta_H'][0]
    for bep_cls, bdirs in (('omkm.BEP', (None, 'cleavage', 'synthesis')), ('BEP', (None,))):
        for bd in bdirs:
            for rd in (None, 'cleavage', 'synthesis'):
                c2 = copy.deepcopy(tmpl)
                c2['cls'] = 'SurfaceReaction'
                c2['bep'].update(cls=bep_cls, direction=bd, slope=0.35, intercept=22.5)
                c2['extra'] = {'direction': rd} if rd else {}
                c2['rxn_direction_explicit'] = True
                D.append(c2)
    # --- B1f: Ea handed to OpenMKM files through a BEP transition state: endothermic with a flat, low relation
    #     (reaction change wins), ordinary (barrier wins), strongly exothermic with slope 1 (zero wins)
    for bep_cls in ('omkm.BEP', 'BEP'):
        for rd in ('cleavage', None):
            for a6B, slope, icpt in ((-5000.0, 0.1, 5.0), (-21000.0, 0.5, 20.0), (-60000.0, 1.0, 5.0)):
                D.append({'kind': 'bep', 'cls': 'SurfaceReaction', 'flavor': 'directed',
                          'species': {'A(S)': _nasa('A(S)', 'S', 3.0, -20000.0, 2.0),
                                      'B(S)': _nasa('B(S)', 'S', 3.0, a6B, 2.5)},
                          'reactants': [['A(S)', 1.0]], 'products': [['B(S)', 1.0]], 'ts': [['bep1', 1.0]],
                          'extra': {'direction': rd, 'id': 'r1'} if rd else {}, 'rxn_direction_explicit': True,
                          'cond': {'T': 500.0}, 'steer': None,
                          'bep': {'name': 'bep1', 'cls': bep_cls, 'slope': slope, 'intercept': icpt,
                                  'descriptor': 'delta_H', 'direction': rd if bep_cls == 'omkm.BEP' else None},
                          'units': ['cal/mol', 'eV'], 'bep_units': ['kcal/mol', 'eV/molecule']})
    # --- B2: one BEP object shared by a family of reactions, both evaluation orders
    sib = {'species': {'CH3(S)': _nasa('CH3(S)', 'S', 4.0, -9000.0, 6.0), 'H(S)': _nasa('H(S)', 'S', 1.5, -4000.0, 1.0),
                       'CH4': _nasa('CH4', 'G', 4.5, -2000.0, 22.0)},
           'reactants': [['CH3(S)', 1], ['H(S)', 1]], 'products': [['CH4', 1]]}
    for j, base in enumerate([c for c in D if c['kind'] == 'bep' and c['bep']['descriptor'] in ('delta_H', 'reactants_H')]):
        for order in ([0, 1, 0], [1, 0, 1]):
            c2 = copy.deepcopy(base)
            c2['siblings'] = [copy.deepcopy(sib)]
            c2['order'] = order
            D.append(c2)
    # --- B3: related names (surface species whose names are substrings of the bulk species of their site)
    for i, cls in enumerate(('ChemkinReaction', 'SurfaceReaction', 'ChemkinReaction', 'SurfaceReaction')):
        r = random.Random('C09-directed-names-%d' % i)
        D.append(_gen_A_surface(r, cls=cls, n_surf=2 + i // 2, op=OPS[i], nsites=1 + i // 2, has_ts=False,
                                route='no_entropy', bulk=bool(i % 2), related=True))
    # --- B1: adsorption steps without a transition state, exo- and endothermic, both classes, all units;
    #     every option value once on a reaction with a transition state
    for cls in ('ChemkinReaction', 'SurfaceReaction'):
        for a6p in (-14000.0, 5000.0):
            D.append({'kind': 'clamp', 'cls': cls, 'flavor': 'empirical',
                      'species': {'CO': _nasa('CO', 'G', 3.5, -13000.0, 24.0), 'PT(S)': _nasa('PT(S)', 'S', 0.5, 0.0, 0.0),
                                  'CO(S)': _nasa('CO(S)', 'S', 4.5, -13000.0 + a6p, 9.0)},
                      'reactants': [['CO', 1], ['PT(S)', 1]], 'products': [['CO(S)', 1]], 'ts': None,
                      'extra': {'is_adsorption': True, 'sticking_coeff': 0.8}, 'cond': {'T': 450.0, 'P': 1.5},
                      'steer': None, 'units': list(ACT_UNITS)})
        for k, vals in sorted(OPTIONS[cls].items()):
            for v in vals:
                if v == 'default':
                    continue
                D.append({'kind': 'clamp', 'cls': cls, 'flavor': 'empirical',
                          'species': {'A': _nasa('A', 'G', 3.5, -1000.0, 20.0), 'B(S)': _nasa('B(S)', 'S', 2.0, -2000.0, 3.0),
                                      'C(S)': _nasa('C(S)', 'S', 4.5, 1500.0, 8.0),
                                      'AB_TS': _nasa('AB_TS', 'S', 4.0, 900.0, 6.0)},
                          'reactants': [['A', 1], ['B(S)', 1]], 'products': [['C(S)', 1]], 'ts': [['AB_TS', 1]],
                          'extra': {k: v}, 'cond': {'T': 500.0}, 'steer': None, 'units': ['kcal/mol', 'J/mol']})
    # --- B3: beta x is_adsorption x TS grid on both classes
    i = 0
    for cls in ('ChemkinReaction', 'SurfaceReaction'):
        for beta in ('default', 0, 0.5, 1, 2):
            for ads in (False, True):
                i += 1
                r = random.Random('C09-directed-beta-%d' % i)
                D.append(_gen_A_surface(r, cls=cls, n_surf=1 + i % 3, op=OPS[i % 4], nsites=1 + i % 2,
                                        has_ts=bool(i % 2) != ads, route='entropy',
                                        options={'beta': beta, 'is_adsorption': ads}))
    # --- B1 through write_EA: one call per activation method (partial-pressure scan at fixed T, P)
    for i, meth in enumerate(EA_METHODS):
        D.append(_gen_ea_file(random.Random('C09-directed-EA-%d' % i), method=meth))
    # --- B3: species attributes (n_sites >= 2, gas reactant with a cat_site, notes/smiles)
    for i, cls in enumerate(('ChemkinReaction', 'SurfaceReaction') * 3):
        r = random.Random('C09-directed-attrs-%d' % i)
        D.append(_gen_A_surface(r, cls=cls, n_surf=1 + i // 2, op=OPS[i % 4], nsites=1 + (i // 2) % 2,
                                has_ts=bool(i % 2), route='entropy',
                                attrs={'gas_cat_site': True, 'n_sites': True, 'meta': True},
                                options={'is_adsorption': False}))
    # --- B3: n_surf x operation x class grid (deterministic generator seeds; pinned by construction)
    i = 0
    for cls in ('ChemkinReaction', 'SurfaceReaction'):
        for n_surf in (0, 1, 2, 3):
            for op in OPS:
                i += 1
                if n_surf == 0 and op != 'sum':
                    continue
                r = random.Random('C09-directed-A-%d' % i)
                D.append(_gen_A_surface(r, cls=cls, n_surf=n_surf, op=op, nsites=2 if n_surf > 1 else 1,
                                        has_ts=bool(i % 2), route=['entropy', 'no_entropy'][(i // 2) % 2],
                                        bulk=(i % 4 == 0) and n_surf > 0))
    return D


def generate(rng, tier):
    u = rng.random()
    if u < 0.03:
        return _gen_ea_file(rng)
    if u < 0.38:
        return _gen_clamp(rng)
    if u < 0.70:
        return _gen_bep(rng)
    if u < 0.80:
        return _gen_A_reaction(rng)
    return _gen_A_surface(rng)


# =========================================================================== probes
_P = {'ctx': None}


def _nonneg_ret(label, ret, snap):
    ctx = _P['ctx']
    if ctx is None:
        return
    try:
        v = _f(ret)
    except Exception:
        return
    if v >= 0.0:
        ctx.held('INV')
    else:
        ctx.fail('INV', {'at': label, 'what': 'negative_or_nan'}, value=repr(v))


def _adj_call(label, loc):
    ctx = _P['ctx']
    try:
        d = loc['self'].descriptor
        ctx.branch('adj:%s:%s' % ('rev_delta' if 'rev_delta' in d else 'other', 'rev' if loc.get('rev') else 'fwd'))
    except Exception:
        pass
    return None


def _desc_call(label, loc):
    try:
        _P['ctx'].branch('descriptor:%s' % loc['self'].descriptor)
    except Exception:
        pass
    return None


def _nsurf_ret(label, ret, snap):
    try:
        _P['ctx'].branch('%s=%g' % (label, _f(ret)))
    except Exception:
        pass


def install_probes(pr, ctx):
    _P['ctx'] = ctx

    def ck():
        from pmutt.reaction import ChemkinReaction
        return ChemkinReaction

    def sr():
        from pmutt.omkm.reaction import SurfaceReaction
        return SurfaceReaction

    def bep():
        from pmutt.reaction.bep import BEP
        return BEP

    def rx():
        from pmutt.reaction import Reaction
        return Reaction
    for nm, get in (('ChemkinReaction', ck), ('SurfaceReaction', sr)):
        for m in ('get_HoRT_act', 'get_H_act', 'get_GoRT_act', 'get_G_act'):
            pr.watch((lambda g=get, m=m: getattr(g(), m)), '%s.%s' % (nm, m), on_ret=_nonneg_ret)
        pr.watch((lambda g=get: g().get_A), '%s.get_A' % nm)
        pr.watch((lambda g=get: g()._get_n_surf), '%s._get_n_surf' % nm, on_ret=_nsurf_ret)
    pr.watch(lambda: sr().to_cti, 'SurfaceReaction.to_cti')
    pr.watch(lambda: sr().to_omkm_yaml, 'SurfaceReaction.to_omkm_yaml')
    pr.watch(lambda: rx().get_A, 'Reaction.get_A')
    pr.watch(lambda: rx().get_EoRT_act, 'Reaction.get_EoRT_act')
    pr.watch(lambda: rx().get_E_act, 'Reaction.get_E_act')
    pr.watch(lambda: bep()._get_descriptor_val, 'BEP._get_descriptor_val', on_call=_desc_call)
    pr.watch(lambda: bep()._get_adjusted_slope, 'BEP._get_adjusted_slope', on_call=_adj_call)
    pr.watch(lambda: bep().get_E_act, 'BEP.get_E_act')
    pr.watch(lambda: bep().get_EoRT_act, 'BEP.get_EoRT_act')
    pr.watch(lambda: bep().get_UoRT, 'BEP.get_UoRT')
    pr.watch(lambda: bep().get_HoRT, 'BEP.get_HoRT')
    pr.watch(lambda: __import__('pmutt.io.chemkin', fromlist=['write_EA']).write_EA, 'io.chemkin.write_EA')


# =========================================================================== factory
def _build(spec, scale=None, bep_obj=None):
    """Real objects from a spec.  scale = {site key: factor} multiplies site densities; bep_obj = an existing
    BEP object to use as the transition state (shared between a family of reactions)."""
    cls = spec['cls']
    sites = spec.get('sites') or {}
    site_of = spec.get('site_of') or {}
    scale = scale or {}
    dens = {k: s['site_density'] * scale.get(k, 1.0) for k, s in sites.items()}
    bulk_names = set(s['bulk'] for s in sites.values())
    cat = {}
    gas_site_of = spec.get('gas_site_of') or {}
    if sites and (cls == 'ChemkinReaction' or gas_site_of):
        from pmutt.chemkin import CatSite
        for k, s in sites.items():
            cat[k] = CatSite(name=k, site_density=dens[k], density=s['density'], bulk_specie=s['bulk'])
    objs = {}
    for n, s in spec['species'].items():
        extra = {}
        if n in site_of and cat and cls == 'ChemkinReaction':
            extra['cat_site'] = cat[site_of[n]]
        if n in gas_site_of and s['type'] == 'Nasa':
            extra['cat_site'] = cat[gas_site_of[n]]          # a gas species carrying a catalyst site
        objs[n] = S.build(s, **extra)
    if cls == 'SurfaceReaction' and sites:
        from pmutt.omkm.phase import InteractingInterface, StoichSolid, IdealGas
        for k, s in sites.items():
            InteractingInterface(name=k, species=[objs[n] for n in sorted(objs) if site_of.get(n) == k
                                                  and n not in bulk_names], site_density=dens[k])
            bl = [objs[n] for n in sorted(objs) if site_of.get(n) == k and n in bulk_names]
            if bl:
                StoichSolid(name=k + '_bulk', species=bl, density=s['density'])
        if spec.get('gas_phase_obj'):
            gl = [objs[n] for n in sorted(objs) if n not in site_of]
            if gl:
                IdealGas(name='gas', species=gl)
    if spec.get('bep') and bep_obj is not None:
        objs[spec['bep']['name']] = bep_obj
    elif spec.get('bep'):
        b = spec['bep']
        kw = dict(slope=b['slope'], intercept=b['intercept'], name=b['name'], descriptor=b['descriptor'])
        if b['cls'] == 'omkm.BEP':
            from pmutt.omkm.reaction import BEP as OBEP
            objs[b['name']] = OBEP(direction=b.get('direction'), **kw)
        else:
            from pmutt.reaction.bep import BEP
            objs[b['name']] = BEP(**kw)
    rspec = spec
    if spec.get('bep') and cls == 'SurfaceReaction' and spec['bep'].get('direction') \
            and not spec.get('rxn_direction_explicit'):
        rspec = dict(spec, extra=dict(spec.get('extra') or {}, direction=spec['bep']['direction']))
    rxn, _ = RG.build_reaction(rspec, species_objs=objs)
    return rxn, objs


def _R(units):
    from pmutt import constants as c
    return c.R('%s/K' % units)


def _states(ctx, oracle, objs, spec, method, cond, sides=('reactants', 'products', 'ts')):
    """State sums from the species' own getters; None when one of them raised."""
    out, mag = {}, {}
    try:
        for st in sides:
            side = spec[st]
            if not side:
                continue
            out[st], mag[st] = RG.state_sum(objs, side, method, cond)
    except Exception as e:
        ctx.inconc(oracle, 'species getter raised', method=method, exc=repr(e)[:200])
        return None, None
    return out, mag


# =========================================================================== B1
def _winner(c):
    best = max(c.values())
    for k in ('zero', 'delta', 'barrier'):
        if c[k] == best:
            return k


def _check_clamp(ctx, rxn, spec, q, cand_by_rev, mag, cond, units, has_ts, mech_extra=None):
    """cand_by_rev[rev] = {'zero': 0, 'barrier': x, 'delta': y} (dimensionless)."""
    cls = spec['cls']
    T = cond['T']
    mech_extra = mech_extra or {}
    for rev in (False, True):
        c = cand_by_rev[rev]
        want = max(c.values())
        win = _winner(c)
        ctx.cls('win:%s:%s:%s' % (q, 'rev' if rev else 'fwd', win))
        ctx.nontrivial(win != 'barrier' or rev)
        m = dict({'clause': 'B1', 'cls': cls, 'q': q, 'form': 'dimless', 'rev': rev, 'has_ts': bool(has_ts),
                  'winner': win}, **mech_extra)
        g = ctx.call('B1', m, getattr(rxn, 'get_%soRT_act' % q), rev=rev, **cond)
        if g is not core.NOVALUE:
            ctx.close('B1', _f(g), want, 1e-10, m, scale=max(1.0, mag), candidates=c)
        for u in units:
            md = dict(m, form='dim')
            g = ctx.call('B1', md, getattr(rxn, 'get_%s_act' % q), units=u, rev=rev, **cond)
            if g is core.NOVALUE:
                continue
            ctx.close('B1', _f(g) / (_R(u) * T), want, TOL, md, scale=max(1.0, mag), units=u, candidates=c,
                      got_dim=_f(g))
            ctx.close('B1u', _f(g) / (RU.R_in(u + '/K') * T), want, TOL_REF, dict(md, what='SI_units'), units=u)


def _run_clamp(spec, ctx, rxn, objs):
    cond = spec['cond']
    cls = spec['cls']
    has_ts = bool(spec['ts'])
    ctx.cls('B1:' + cls, 'B1:ts' if has_ts else 'B1:no_ts')
    T = cond['T']
    for q in ('H', 'G'):
        # SurfaceReaction.get_G_act(units, T, P=1., ...) : documented default pressure 1 bar
        st, mag = _states(ctx, 'B1', objs, spec, 'get_%soRT' % q, cond)
        if st is None:
            continue
        cands = {}
        for rev in (False, True):
            ini, fin = ('products', 'reactants') if rev else ('reactants', 'products')
            delta = st[fin] - st[ini]
            cands[rev] = {'zero': 0.0, 'barrier': (st['ts'] - st[ini]) if has_ts else delta, 'delta': delta}
        if q == 'H':
            dH = cands[False]['delta']
            ctx.cls('exo' if dH < 0 else 'endo')
            if has_ts:
                if cands[False]['barrier'] <= 0:
                    ctx.cls('barrierless')
                if st['ts'] - max(st['reactants'], st['products']) > EV_K / T:
                    ctx.cls('high_barrier')
        _check_clamp(ctx, rxn, spec, q, cands, max(mag.values()), cond, spec['units'], has_ts)
        if q != 'H':
            if cls == 'SurfaceReaction':
                _ea_files(ctx, rxn, objs, spec, 'ts' if has_ts else 'none')
            continue
        if (spec.get('extra') or {}).get('is_adsorption'):
            if has_ts:
                ctx.cls('B1:adsorption:ts')
            elif max(cands[False]['delta'], cands[True]['delta']) > 0:
                ctx.cls('B1:adsorption:no_ts:endo_dir:' + cls)
        # without a transition state the Arrhenius energy of a ChemkinReaction is the clamped reaction
        # enthalpy (+ 1 - del_m): "the (non-negative) reaction enthalpy is used as the barrier"
        if cls == 'ChemkinReaction' and not has_ts:
            ctx.cls('B1:E_act:no_ts')
            sc = max(1.0, max(mag.values()))
            for rev in (False, True):
                want = max(cands[rev].values())
                m = {'clause': 'B1', 'cls': cls, 'q': 'E', 'form': 'dimless', 'rev': rev, 'has_ts': False,
                     'winner': _winner(cands[rev])}
                for del_m in (1, 0):
                    g = ctx.call('B1', m, rxn.get_EoRT_act, rev=rev, del_m=del_m, **cond)
                    if g is not core.NOVALUE:
                        ctx.close('B1', _f(g), want + (1 - del_m), 1e-10, m, scale=sc, del_m=del_m)
                md = dict(m, form='dim')
                for u in spec['units'][:2]:
                    g = ctx.call('B1', md, rxn.get_E_act, units=u, rev=rev, del_m=1, **cond)
                    if g is not core.NOVALUE:
                        ctx.close('B1', _f(g) / (_R(u) * T), want, TOL, md, scale=sc, units=u)


# =========================================================================== B1f: Ea handed to OpenMKM files
TOL_TXT = 5e-4          # to_cti writes 6 significant digits (relative rounding 5e-6)


def _cti_Ea(text):
    """Third number of the rate group of a surface_reaction(...) entry: [A, b, Ea] or stick(s, b, Ea)."""
    import re
    q = text.index('"')
    rest = text[text.index('",', q + 1) + 2:]             # after the quoted equation (names hold brackets)
    m = re.search(r'(\[|stick\()([^\]\)]*)[\]\)]', rest)
    parts = [p.strip() for p in m.group(2).split(',')]
    if len(parts) != 3:
        raise ValueError('rate group with %d entries' % len(parts))
    return float(parts[2])


def _yaml_Ea(d, default_unit):
    """(value, unit) of the Ea entry of the rate block of a to_omkm_yaml dict."""
    blk = d['sticking-coefficient'] if 'sticking-coefficient' in d else d['rate-constant']
    v = blk['Ea']
    if isinstance(v, str):
        t = v.strip().strip('"').split(None, 1)
        return float(t[0]), t[1].strip()
    return float(v), default_unit


def _ea_files(ctx, rxn, objs, spec, ts_kind):
    """SurfaceReaction.to_cti / to_omkm_yaml (Ea and A not preset): the Ea of the entry is the clamp."""
    from pmutt.omkm.units import Units
    ex = spec.get('extra') or {}
    if ex.get('Ea') is not None or ex.get('A') is not None:
        return
    cond = {k: v for k, v in spec['cond'].items() if not k.endswith('_kwargs')}
    cond.setdefault('P', 1.0)
    T = cond['T']
    ads = bool(ex.get('is_adsorption'))

    def skip(why):
        ctx.extra['B1f_skipped:' + why] = ctx.extra.get('B1f_skipped:' + why, 0) + 1
    # a catalyst site for the pre-exponential of the same entry
    # species models without a phase attribute (StatMech) are adsorbates of the interface
    nophase = []
    for n, _ in spec['reactants']:
        if not hasattr(objs[n], 'phase') and objs[n] not in nophase:
            nophase.append(objs[n])
    if nophase:
        from pmutt.omkm.phase import InteractingInterface
        try:
            InteractingInterface(name='terrace0', species=nophase, site_density=2.5e-9)
        except Exception:
            return skip('site_not_attachable')
    reac = [(n, nu) for n, nu in spec['reactants'] if nu >= 1]
    if not any(hasattr(getattr(objs[n], 'phase', None), 'site_density') for n, _ in reac):
        cand = [n for n, _ in reac if spec['species'][n].get('phase') != 'G']
        if not cand and not ads:
            cand = [n for n, _ in reac]
        if not cand:
            return skip('no_site_reactant')
        from pmutt.omkm.phase import InteractingInterface
        try:
            InteractingInterface(name='terrace', species=[objs[cand[0]]], site_density=2.5e-9)
        except Exception:
            return skip('site_not_attachable')
    gas_ok = any(isinstance(getattr(objs[n], 'phase', None), str) and objs[n].phase.lower() in ('g', 'gas')
                 for n, _ in spec['reactants'])
    # reference candidates (forward direction) at the writer's T, P
    rp = ('reactants', 'products')
    sides = rp + (('ts',) if ts_kind == 'ts' else ())
    H, magH = _states(ctx, 'B1f', objs, spec, 'get_HoRT', cond, sides)
    G, magG = _states(ctx, 'B1f', objs, spec, 'get_GoRT', cond, sides)
    if H is None or G is None:
        return
    dH, dG = H['products'] - H['reactants'], G['products'] - G['reactants']
    if ts_kind == 'none':
        bH, bG = dH, dG
    elif ts_kind == 'ts':
        bH, bG = H['ts'] - H['reactants'], G['ts'] - G['reactants']
    else:
        from pmutt import constants as c
        b = spec['bep']
        d = b['descriptor']
        if d.endswith('_E'):
            Q, _ = _states(ctx, 'B1f', objs, spec, 'get_EoRT', cond, rp)
            if Q is None:
                return
        else:
            Q = H
        Sx, _ = _states(ctx, 'B1f', objs, spec, 'get_SoR', cond, ('reactants',))
        if Sx is None:
            return
        RTk = c.R('kcal/mol/K') * T
        dQ = Q['products'] - Q['reactants']
        dval = {'delta': dQ, 'rev_delta': -dQ, 'reactants': Q['reactants'], 'products': Q['products']}[d[:-2]]
        bH = _adj_slope(b, False) * dval + b['intercept'] / RTk
        bG = (H['reactants'] + bH - Sx['reactants']) - G['reactants']      # documented default entropy_state
    cand = {'H': {'zero': 0.0, 'barrier': bH, 'delta': dH}, 'G': {'zero': 0.0, 'barrier': bG, 'delta': dG}}
    mag = max(1.0, max(magH.values()), max(magG.values()))
    ctx.cls('eaf:ts=' + ts_kind, 'eaf:adsorption' if ads else 'eaf:non_adsorption')
    u = spec['units'][0]
    for meth in (('get_H_act', 'get_G_act') if ads else (None,)):
        q = meth[4] if ads else 'G'
        c_ = cand[q]
        want = max(c_.values())
        win = _winner(c_)
        if ads:
            ctx.cls('eaf:adsorption:' + meth)
        else:
            ctx.cls('eaf:ts=%s:winner=%s' % (ts_kind, win))
        for ulabel in ('str', 'Units'):
            kw = dict(T=T, P=cond['P'])
            if ulabel == 'str':
                kw['act_energy_unit'] = u
            else:
                kw['units'] = Units(act_energy=u)
            if ads:
                kw['ads_act_method'] = meth
            base = {'clause': 'B1', 'cls': 'SurfaceReaction', 'form': 'omkm_file', 'q': q, 'ts': ts_kind,
                    'winner': win, 'is_adsorption': ads, 'units_arg': ulabel}
            # ---- CTI text
            m = dict(base, writer='to_cti')
            txt = ctx.call('B1f', m, rxn.to_cti, **kw)
            if txt is not core.NOVALUE:
                try:
                    got = _cti_Ea(txt)
                except Exception as e:
                    ctx.inconc('B1f', 'CTI entry not understood', exc=repr(e)[:100], text=str(txt)[:300])
                else:
                    ctx.cls('eaf:writer=to_cti', 'eaf:units=' + ulabel)
                    ctx.close('B1f', got / (_R(u) * T), want, TOL_TXT, m, units=u, candidates=c_, got_dim=got)
                    ctx.nontrivial(win != 'barrier')
            # ---- YAML dict
            if ads and not gas_ok:
                skip('yaml_adsorption_without_gas_reactant')
                continue
            m = dict(base, writer='to_omkm_yaml')
            dct = ctx.call('B1f', m, rxn.to_omkm_yaml, **kw)
            if dct is core.NOVALUE:
                continue
            try:
                got, gu = _yaml_Ea(dct, u)
                Ru = _R(gu)
            except Exception as e:
                ctx.inconc('B1f', 'YAML entry not understood', exc=repr(e)[:100], entry=repr(dct)[:300])
                continue
            ctx.cls('eaf:writer=to_omkm_yaml', 'eaf:units=' + ulabel)
            ctx.close('B1f', got / (Ru * T), want, TOL, m, scale=mag, units=gu, candidates=c_, got_dim=got)


# =========================================================================== B2
def _adj_slope(b, rev):
    native_rev = b['descriptor'].startswith('rev_delta')
    return b['slope'] if bool(rev) == native_rev else b['slope'] - 1.0


def _run_bep(spec, ctx, rxn, objs):
    from pmutt import constants as c
    b = spec['bep']
    bep = objs[b['name']]
    cond = spec['cond']
    T = cond['T']
    cls = spec['cls']
    d = b['descriptor']
    X = d[-1]                                   # 'H' or 'E'
    is_delta = 'delta' in d
    if cls == 'SurfaceReaction':
        rd = (spec.get('extra') or {}).get('direction') if spec.get('rxn_direction_explicit') else b.get('direction')
        ctx.cls('dir:%s=%s:rxn=%s' % (b['cls'], b.get('direction'), rd))
    ctx.cls('desc:' + d, 'bep:' + b['cls'], 'B2:' + cls,
            'slope:%s' % ('0' if b['slope'] == 0 else '1' if b['slope'] == 1 else 'inner'))
    RT = c.R('kcal/mol/K') * T
    base = {'clause': 'B2', 'cls': cls, 'bep': b['cls'], 'descriptor': d}
    rp = ('reactants', 'products')
    H, magH = _states(ctx, 'B2', objs, spec, 'get_HoRT', cond, rp)
    if H is None:
        return
    if X == 'E':
        Q, magQ = _states(ctx, 'B2', objs, spec, 'get_EoRT', cond, rp)
        if Q is None:
            return
    else:
        Q, magQ = H, magH
    dQ = (Q['products'] - Q['reactants']) * RT                # kcal/mol
    dval = {'delta': dQ, 'rev_delta': -dQ, 'reactants': Q['reactants'] * RT,
            'products': Q['products'] * RT}[d[:-2]]
    scale_k = max(1.0, max(magQ.values()) * RT, b['intercept'])   # kcal/mol magnitude of what is subtracted
    E_ref = {rev: _adj_slope(b, rev) * dval + b['intercept'] for rev in (False, True)}
    asserted = {rev: (is_delta or not rev) for rev in (False, True)}
    # 1. the relation, every unit
    E_api = {}
    for rev in (False, True):
        m = dict(base, what='relation', rev=rev)
        for u in spec['bep_units']:
            g = ctx.call('B2', m, bep.get_E_act, units=u, reaction=rxn, rev=rev, **cond)
            if g is core.NOVALUE:
                continue
            g = _f(g)
            if u == 'kcal/mol':
                E_api[rev] = g
            if not asserted[rev]:
                ctx.extra['B2_state_descriptor_rev_unasserted'] = \
                    ctx.extra.get('B2_state_descriptor_rev_unasserted', 0) + 1
                continue
            f_p = c.convert_unit(initial='kcal/mol', final=u)
            f_si = RU.SI['energy/amount']['kcal/mol'] / RU.SI['energy/amount'][u]
            ctx.close('B2', g / f_p, E_ref[rev], TOL, m, scale=scale_k, units=u, descriptor_val=dval, got=g)
            ctx.close('B2u', g / f_si, E_ref[rev], TOL_REF_BEP, dict(m, what='relation_SI_units'), units=u)
        if 'kcal/mol' not in spec['bep_units']:
            g = ctx.call('B2', m, bep.get_E_act, units='kcal/mol', reaction=rxn, rev=rev, **cond)
            if g is not core.NOVALUE:
                E_api[rev] = _f(g)
                if asserted[rev]:
                    ctx.close('B2', E_api[rev], E_ref[rev], TOL, m, scale=scale_k, units='kcal/mol',
                              descriptor_val=dval)
        # dimensionless form
        if rev in E_api:
            m2 = dict(base, what='EoRT_act', rev=rev)
            g = ctx.call('B2', m2, bep.get_EoRT_act, reaction=rxn, rev=rev, **cond)
            if g is not core.NOVALUE:
                ctx.close('B2', _f(g) * RT, E_api[rev], TOL, m2, scale=scale_k)
        ctx.nontrivial(rev)
    # 2. forward - reverse = delta (delta descriptors)
    if is_delta and len(E_api) == 2:
        ctx.close('B2', E_api[False] - E_api[True], dQ, TOL, dict(base, what='fwd-rev=delta'), scale=scale_k,
                  E_f=E_api[False], E_r=E_api[True])
    # 3. the reaction's own transition-state enthalpy is the same barrier
    scale_h = max(1.0, max(magH.values()) * RT, b['intercept'], scale_k)
    dH = (H['products'] - H['reactants']) * RT
    for rev in (False, True):
        if rev and not (is_delta and X == 'H'):
            ctx.extra['B2_rev_ts_enthalpy_unasserted'] = ctx.extra.get('B2_rev_ts_enthalpy_unasserted', 0) + 1
            continue
        want = E_ref[rev]
        m = dict(base, what='ts_enthalpy', rev=rev)
        g = ctx.call('B2', dict(m, via='get_delta_HoRT'), rxn.get_delta_HoRT, rev=rev, act=True, **cond)
        if g is not core.NOVALUE:
            ctx.close('B2', _f(g) * RT, want, TOL, dict(m, via='get_delta_HoRT'), scale=scale_h)
            if rev in E_api:
                ctx.close('B2', _f(g) * RT, E_api[rev], TOL, dict(m, via='get_delta_HoRT', what='ts_enthalpy=get_E_act'),
                          scale=scale_h)
        for u in spec['units']:
            g = ctx.call('B2', dict(m, via='get_delta_H'), rxn.get_delta_H, units=u, rev=rev, act=True, **cond)
            if g is not core.NOVALUE:
                ctx.close('B2', _f(g) / (_R(u) * T) * RT, want, TOL, dict(m, via='get_delta_H'), scale=scale_h, units=u)
            # Arrhenius energy with del_m=1 is the activation enthalpy (unclamped, all classes)
            g = ctx.call('B2', dict(m, via='get_E_act'), rxn.get_E_act, units=u, rev=rev, del_m=1, **cond)
            if g is not core.NOVALUE:
                ctx.close('B2', _f(g) / (_R(u) * T) * RT, want, TOL, dict(m, via='get_E_act'), scale=scale_h, units=u)
            if cls == 'Reaction':
                g = ctx.call('B2', dict(m, via='get_H_act'), rxn.get_H_act, units=u, rev=rev, **cond)
                if g is not core.NOVALUE:
                    ctx.close('B2', _f(g) / (_R(u) * T) * RT, want, TOL, dict(m, via='get_H_act'), scale=scale_h,
                              units=u)
        if cls == 'Reaction':
            g = ctx.call('B2', dict(m, via='get_HoRT_act'), rxn.get_HoRT_act, rev=rev, **cond)
            if g is not core.NOVALUE:
                ctx.close('B2', _f(g) * RT, want, TOL, dict(m, via='get_HoRT_act'), scale=scale_h)
    # 4. internal-energy and enthalpy offsets use the same barrier
    m = dict(base, what='U_offset=H_offset')
    U, magU = _states(ctx, 'B2', objs, spec, 'get_UoRT', cond, ('reactants',))
    if U is not None:
        gu = ctx.call('B2', dict(m, via='BEP.get_UoRT'), bep.get_UoRT, reaction=rxn, **cond)
        gh = ctx.call('B2', dict(m, via='BEP.get_HoRT'), bep.get_HoRT, reaction=rxn, **cond)
        if core.NOVALUE not in (gu, gh):
            sc = max(1.0, magU['reactants'], magH['reactants'], scale_k / RT)
            ctx.close('B2', _f(gu) - U['reactants'], _f(gh) - H['reactants'], TOL, dict(m, via='BEP'), scale=sc,
                      U_offset=_f(gu) - U['reactants'], H_offset=_f(gh) - H['reactants'], E_f_oRT=E_ref[False] / RT,
                      E_r_oRT=E_ref[True] / RT)
            ctx.close('B2', _f(gh) - H['reactants'], E_ref[False] / RT, TOL, dict(base, what='H_offset=barrier'),
                      scale=sc)
        du = ctx.call('B2', dict(m, via='get_delta_UoRT'), rxn.get_delta_UoRT, act=True, **cond)
        dh = ctx.call('B2', dict(m, via='get_delta_HoRT'), rxn.get_delta_HoRT, act=True, **cond)
        if core.NOVALUE not in (du, dh):
            ctx.close('B2', _f(du), _f(dh), TOL, dict(m, via='reaction'),
                      scale=max(1.0, magU['reactants'], magH['reactants'], scale_k / RT))
    # 5. clamp with a BEP transition state (ChemkinReaction / SurfaceReaction)
    if cls in ('ChemkinReaction', 'SurfaceReaction'):
        ctx.cls('B1:bep_ts')
        Ef = E_ref[False] / RT
        cands = {False: {'zero': 0.0, 'barrier': Ef, 'delta': dH / RT},
                 True: {'zero': 0.0, 'barrier': Ef - dH / RT, 'delta': -dH / RT}}
        _check_clamp(ctx, rxn, spec, 'H', cands, scale_h / RT, cond, spec['units'], True)
    # 6. Gibbs energy through the BEP "species": documented option entropy_state in {'reactants' (default),
    #    'products', None}: S_TS = S(reactants) / S(products) / 0, G_TS = H_reactants + E_f/RT - S_TS
    # (global conditions only: a block addressed to one species is stripped by the reaction before it calls the
    #  BEP "species", so the BEP's own evaluation of S(reactants) would not see it -- C08's subject, not asserted)
    condg = {k: v for k, v in cond.items() if not k.endswith('_kwargs')}
    condg.setdefault('P', 1.0)          # SurfaceReaction.get_G_act defaults P to 1 bar (= the species' default)
    Sx, magS = _states(ctx, 'B2', objs, spec, 'get_SoR', condg, rp)
    Gx, magG = _states(ctx, 'B2', objs, spec, 'get_GoRT', condg, rp)
    if Sx is None or Gx is None:
        return
    Ef = E_ref[False] / RT
    scg = max(1.0, max(magG.values()), max(magS.values()), max(magH.values()), scale_k / RT)
    for es in spec.get('entropy_states') or ['default', 'reactants', 'products', 'None']:
        S_ts = {'default': Sx['reactants'], 'reactants': Sx['reactants'], 'products': Sx['products'], 'None': 0.0}[es]
        kw = dict(condg)
        if es != 'default':
            kw['entropy_state'] = None if es == 'None' else es
        ctx.cls('entropy_state:' + es)
        G_ts = H['reactants'] + Ef - S_ts
        m = dict(base, what='entropy_state', entropy_state=es)
        g = ctx.call('B2', dict(m, via='BEP.get_SoR'), bep.get_SoR, reaction=rxn, **kw)
        if g is not core.NOVALUE:
            ctx.close('B2', _f(g), S_ts, TOL, dict(m, via='BEP.get_SoR'), scale=scg)
        g = ctx.call('B2', dict(m, via='BEP.get_GoRT'), bep.get_GoRT, reaction=rxn, **kw)
        if g is not core.NOVALUE:
            ctx.close('B2', _f(g), G_ts, TOL, dict(m, via='BEP.get_GoRT'), scale=scg, H_reactants=H['reactants'],
                      E_f_oRT=Ef, S_ts=S_ts)
        cg = {}
        for rev in (False, True):
            ini, fin = ('products', 'reactants') if rev else ('reactants', 'products')
            cg[rev] = {'zero': 0.0, 'barrier': G_ts - Gx[ini], 'delta': Gx[fin] - Gx[ini]}
        if cls in ('ChemkinReaction', 'SurfaceReaction'):
            _check_clamp(ctx, rxn, spec, 'G', cg, scg, kw, spec['units'][:1], True, {'entropy_state': es})
        else:
            for rev in (False, True):
                mm = dict(m, via='get_GoRT_act', rev=rev)
                g = ctx.call('B2', mm, rxn.get_GoRT_act, rev=rev, **kw)
                if g is not core.NOVALUE:
                    ctx.close('B2', _f(g), cg[rev]['barrier'], TOL, mm, scale=scg)
    # 7. the activation energy written to the OpenMKM files
    if cls == 'SurfaceReaction':
        _ea_files(ctx, rxn, objs, spec, 'bep:' + b['cls'])


# =========================================================================== B3
def _kb_h():
    from pmutt import constants as c
    return c.kb('J/K') / c.h('J s')


def _log_close(ctx, got, want_log, mech, scale, tol=TOL, oracle='B3', **detail):
    """Compare a positive number with exp(want_log) in log space."""
    g = _f(got)
    if not (g > 0 and math.isfinite(g)):
        return ctx.fail('B3', dict(mech, what='positive'), value=repr(g), **detail)
    ctx.held('B3')         # A > 0
    return ctx.close(oracle, math.log(g), want_log, tol, mech, scale=scale, A=g, **detail)


def _run_A_reaction(spec, ctx, rxn, objs):
    cond = spec['cond']
    T = cond['T']
    cls = spec['cls']
    ctx.cls('A:' + cls)
    m_in = spec['m']
    if m_in is None:
        ctx.cls('m:None')
    Sx, magS = _states(ctx, 'B3', objs, spec, 'get_SoR', cond)
    if Sx is None:
        return
    for rev in (False, True):
        ini = 'products' if rev else 'reactants'
        dS = Sx['ts'] - Sx[ini]
        m = m_in if m_in is not None else sum(nu for _, nu in spec[ini])
        mech = {'clause': 'B3', 'cls': cls, 'what': 'entropy_route', 'rev': rev, 'm': 'None' if m_in is None else 'given'}
        if abs(dS + m) > EXP_MAX:
            ctx.extra['B3_exp_range_skipped'] = ctx.extra.get('B3_exp_range_skipped', 0) + 1
            continue
        g = ctx.call('B3', mech, rxn.get_A, rev=rev, m=m_in, use_q=False, **cond)
        if g is core.NOVALUE:
            continue
        sc = max(1.0, magS['ts'], magS[ini])
        _log_close(ctx, g, math.log(_kb_h() * T) + dS + m, mech, sc, dS_act=dS, m=m)
        _log_close(ctx, g, math.log(RU.KB / RU.H * T) + dS + m, dict(mech, what='entropy_route_SI'), sc, tol=TOL_REF,
                   oracle='B3u')
        ctx.nontrivial(rev)
        # q route: sign only
        try:
            gq = _f(rxn.get_A(rev=rev, m=m_in, **cond))
        except Exception:
            ctx.extra['B3_q_route_raised'] = ctx.extra.get('B3_q_route_raised', 0) + 1
            continue
        if math.isfinite(gq) and gq != 0.0:
            ctx.check('B3', gq > 0, dict(mech, what='positive_q_route'), value=gq)
        else:
            ctx.extra['B3_q_route_over_underflow'] = ctx.extra.get('B3_q_route_over_underflow', 0) + 1


def _sigma(spec, op, scale=None):
    """(sigma_eff in mol/cm2, n_surf, list) : operation over the densities of the surface reactants,
    each counted with its coefficient; bulk and gas species excluded."""
    sites, site_of = spec['sites'], spec['site_of']
    scale = scale or {}
    bulk = set(s['bulk'] for s in sites.values())
    lst = []
    for n, nu in spec['reactants']:
        if n in site_of and n not in bulk:
            k = site_of[n]
            lst.extend([sites[k]['site_density'] * scale.get(k, 1.0)] * int(round(nu)))
    if not lst:
        return None, 0, lst
    if op == 'sum':
        s = math.fsum(lst)
    elif op == 'min':
        s = min(lst)
    elif op == 'max':
        s = max(lst)
    else:
        s = math.fsum(lst) / len(lst)
    return s, len(lst), lst


def _run_A_surface(spec, ctx, rxn, objs):
    from pmutt import constants as c
    cond = spec['cond']
    T = cond['T']
    cls = spec['cls']
    op = spec['sden_operation']
    route = spec['route']
    has_ts = bool(spec['ts'])
    sig, n_surf, lst = _sigma(spec, op)
    bulk = set(s['bulk'] for s in spec['sites'].values())
    ctx.cls('A:' + cls, 'n_surf:%d' % n_surf, 'op:' + op)
    if len(set(lst)) > 1:
        ctx.cls('sites:2')
    if n_surf and any(n not in spec['site_of'] for n, _ in spec['reactants']):
        ctx.cls('gas+surf')
    if any(n in bulk for n, _ in spec['reactants']):
        ctx.cls('bulk_reactant')
    ctx.nontrivial(n_surf != 1)
    kw = dict(cond, sden_operation=op)
    lead = math.log(_kb_h())
    lead_si = math.log(RU.KB / RU.H)
    sc = 1.0
    entropy = False
    if not has_ts:
        ctx.cls('A:no_ts')
        if route == 'no_entropy':
            kw['include_entropy'] = False
    elif route == 'no_entropy':
        ctx.cls('A:no_entropy')
        kw['include_entropy'] = False
    elif route == 'entropy':
        ctx.cls('A:entropy')
        Sx, magS = _states(ctx, 'B3', objs, spec, 'get_SoR', cond, ('reactants', 'ts'))
        if Sx is None:
            return
        dS = Sx['ts'] - Sx['reactants']
        if abs(dS + spec['m']) > EXP_MAX:
            ctx.extra['B3_exp_range_skipped'] = ctx.extra.get('B3_exp_range_skipped', 0) + 1
            return
        kw.update(use_q=False, m=spec['m'], include_entropy=True)
        lead += dS + spec['m']
        lead_si += dS + spec['m']
        sc = max(1.0, magS['ts'], magS['reactants'])
        entropy = True
    mech = {'clause': 'B3', 'cls': cls, 'sden_operation': op, 'n_surf': n_surf, 'has_ts': has_ts,
            'route': route if has_ts else 'no_ts'}
    formula = not (has_ts and route == 'default')       # q route with a TS: sign only
    # species attributes that are not in the formulas
    gas_cs = [n for n, _ in spec['reactants'] if n in (spec.get('gas_site_of') or {})
              and spec['species'][n]['type'] == 'Nasa']
    # a gas reactant carrying a cat_site is not a surface reactant: its site density must not enter sigma and it
    # does not count in n_surf -- the formula value is asserted for every n_surf and every operation
    if formula and (n_surf > 0 or cls == 'ChemkinReaction'):
        if any((spec['species'][n].get('n_sites') or 1) > 1 for n, _ in spec['reactants']
               if n in spec['site_of'] and n not in bulk):
            ctx.cls('attr:n_sites>1:' + cls)
        if gas_cs:
            ctx.cls('attr:gas_cat_site:' + cls)
            if n_surf > 0 and not (spec.get('extra') or {}).get('is_adsorption'):
                ctx.cls('attr:gas_cat_site:non_adsorption:' + cls)
        if any('notes' in spec['species'][n] for n, _ in spec['reactants']):
            ctx.cls('attr:notes_smiles')

    def expect(sigma_mol_cm2, q, ln, si=False):
        """log A for sigma expressed in q/ln2."""
        if cls == 'ChemkinReaction':
            if n_surf == 0:
                return (lead_si if si else lead)
            s = sigma_mol_cm2
        else:
            if si:
                s = sigma_mol_cm2 * (RU.SI['amount']['mol'] / RU.SI['amount'][q]) / \
                    (RU.SI['area']['cm2'] / RU.SI['area'][ln + '2'])
            else:
                s = sigma_mol_cm2 * c.convert_unit(initial='mol', final=q) / \
                    c.convert_unit(initial='cm2', final=ln + '2')
        return (lead_si if si else lead) + (1 - n_surf) * math.log(s)

    # ---- SurfaceReaction without any site: documented refusal, telemetry
    if cls == 'SurfaceReaction' and n_surf == 0:
        try:
            g = rxn.get_A(**kw)
        except ValueError:
            ctx.extra['B3_surface_no_site_refused'] = ctx.extra.get('B3_surface_no_site_refused', 0) + 1
            return
        except Exception as e:
            ctx.fail('B3', dict(mech, exc=type(e).__name__), message=str(e)[:200])
            return
        ctx.check('B3', _f(g) > 0, dict(mech, what='positive'), value=_f(g))
        return

    def call(r, units=None, k=None):
        k = dict(k or kw)
        if units is not None:
            k['units'] = units
        return ctx.call('B3', mech, r.get_A, **k)

    if formula and (n_surf > 0 or cls == 'ChemkinReaction'):
        ex = spec.get('extra') or {}
        ctx.cls('A:%s:beta=%s:%s' % (cls, ex.get('beta', 'default'), 'ts' if entropy else 'no_ts'),
                'A:%s:is_adsorption=%s' % (cls, bool(ex.get('is_adsorption'))))
    if formula and n_surf > 0:
        # classes of the cases whose A is actually compared with the formula
        if any(n in bulk for n, _ in spec['reactants']):
            ctx.cls('bulk_reactant:' + cls)
        for n, _ in spec['reactants']:
            if n in spec['site_of'] and n not in bulk:
                b = spec['sites'][spec['site_of'][n]]['bulk']
                if n != b and n in b:
                    ctx.cls('names:substring_of_bulk:' + cls)
                if n != b and (b in n or b.lower() == n.lower()):
                    ctx.cls('names:superstring_of_bulk')
    variants = []       # (label, units argument, quantity, length)
    if cls == 'SurfaceReaction':
        from pmutt.omkm.units import Units
        q, ln = spec['units']['quantity'], spec['units']['length']
        variants.append(('str', '%s/%s2' % (q, ln), q, ln))
        variants.append(('Units', Units(quantity=q, length=ln), q, ln))
        variants.append(('default', None, 'molec', 'cm'))
    else:
        variants.append(('chemkin', None, 'mol', 'cm'))
    base_val = {}
    for label, uarg, q, ln in variants:
        if label in ('str', 'Units'):
            ctx.cls('units:' + label)
        g = call(rxn, uarg)
        if g is core.NOVALUE:
            continue
        g = _f(g)
        base_val[label] = g
        mm = dict(mech, units=label)
        if not formula:
            ctx.check('B3', g > 0 and math.isfinite(g), dict(mm, what='positive'), value=g)
            continue
        _log_close(ctx, g, expect(sig, q, ln), dict(mm, what='formula'), sc, sigma=sig, densities=lst,
                   unit='%s/%s2' % (q, ln))
        _log_close(ctx, g, expect(sig, q, ln, si=True), dict(mm, what='formula_SI'), sc, tol=TOL_REF, oracle='B3u')
    if 'str' in base_val and 'Units' in base_val:
        ctx.check('B3', base_val['str'] == base_val['Units'], dict(mech, what='Units_object=string'),
                  s=base_val['str'], u=base_val['Units'])
    # include_entropy=False and "no TS" give the same factor as kB/h (per unit temperature): T-independence
    if not entropy and formula and variants[0][0] in base_val:
        g2 = call(rxn, variants[0][1], dict(kw, T=T * 1.7))
        if g2 is not core.NOVALUE:
            ctx.check('B3', _f(g2) == base_val[variants[0][0]], dict(mech, what='per_unit_temperature'),
                      a=base_val[variants[0][0]], b=_f(g2))
    if n_surf == 0:
        return
    # ---- ratio tests: A ~ sigma**(1-n_surf)
    first = variants[0]
    if first[0] not in base_val:
        return
    A0 = base_val[first[0]]
    f = spec['factor']
    tests = [('all_sites', {k: f for k in spec['sites']})]
    used = sorted(set(spec['site_of'][n] for n, _ in spec['reactants'] if n in spec['site_of'] and n not in bulk))
    if len(used) > 1:
        tests.append(('one_site', {used[0]: f}))
    for label, scl in tests:
        r2, _ = _build(spec, scale=scl)
        g = call(r2, first[1])
        if g is core.NOVALUE:
            continue
        g = _f(g)
        if not (g > 0 and A0 > 0):
            ctx.fail('B3', dict(mech, what='positive'), value=g)
            continue
        s2, _, _ = _sigma(spec, op, scale=scl)
        want = (1 - n_surf) * (math.log(f) if label == 'all_sites' else math.log(s2 / sig))
        ctx.close('B3', math.log(g / A0), want, TOL, dict(mech, what='ratio_' + label), factor=f, A0=A0, A1=g)


# =========================================================================== B1 through write_EA
def _run_ea_file(spec, ctx):
    """The numbers of EAs.inp / EAg.inp, per reaction and per run condition, equal the clamp reference evaluated
    at *that run's* conditions (the file format itself is C06's subject: only the trailing numeric columns of the
    reaction lines are read)."""
    import os
    from pmutt.io import chemkin as ck
    built = [_build(r) for r in spec['reactions']]
    rxns = [b[0] for b in built]
    conds = spec['conditions']
    nc = len(conds)
    ctx.cls('ea_file', 'ea_file:method=' + spec['method'])
    keyTP = {}
    for c in conds:
        keyTP.setdefault((c['T'], c.get('P')), []).append(c)
    if any(len(v) > 1 and len(set(core.canon(c) for c in v)) > 1 for v in keyTP.values()):
        ctx.cls('ea_file:same_TP_differing_blocks')
    columns_differ = False
    for gas_flag in (False, True):
        sel = [i for i, r in enumerate(spec['reactions'])
               if all(r['species'][n].get('phase') == 'G' for n, _ in r['reactants']) == gas_flag]
        m0 = {'clause': 'B1', 'cls': 'ChemkinReaction', 'form': 'EA_file', 'what': 'write_EA', 'method': spec['method']}
        kw = dict(reactions=rxns, conditions=copy.deepcopy(conds), write_gas_phase=gas_flag,
                  act_method_name=spec['method'], ads_act_method=spec['ads_method'], float_format=' .12E')
        if spec.get('to_file'):
            path = os.path.join(ctx.tmpdir, 'EA%s.inp' % ('g' if gas_flag else 's'))
            r = ctx.call('B1', m0, ck.write_EA, filename=path, **kw)
            if r is core.NOVALUE:
                continue
            text = open(path).read()
        else:
            text = ctx.call('B1', m0, ck.write_EA, **kw)
            if text is core.NOVALUE:
                continue
        lines = [l for l in text.splitlines() if l.strip() and not l.lstrip().startswith('!')]
        try:
            i0 = next(i for i, l in enumerate(lines) if 'Number of reactions' in l)
            body = lines[i0 + 1:lines.index('EOF')]
            rows = [[float(t) for t in l.split()[-nc:]] for l in body]
        except Exception as e:
            ctx.inconc('B1', 'EA file not understood', exc=repr(e)[:100], head=text[:300])
            continue
        if not ctx.check('B1', len(rows) == len(sel), dict(m0, what='write_EA_rows'), rows=len(rows), want=len(sel)):
            continue
        for row, i in zip(rows, sel):
            r, (rxn, objs) = spec['reactions'][i], built[i]
            has_ts = bool(r['ts'])
            meth = spec['ads_method'] if (r.get('extra') or {}).get('is_adsorption') else spec['method']
            q = meth[4]
            if q == 'E' and has_ts:
                ctx.extra['EA_file_Arrhenius_with_TS_unasserted'] = \
                    ctx.extra.get('EA_file_Arrhenius_with_TS_unasserted', 0) + 1
                continue
            wants = []
            for c, got in zip(conds, row):
                st, mag = _states(ctx, 'B1', objs, r, 'get_%soRT' % ('H' if q == 'E' else q), c)
                if st is None:
                    break
                delta = st['products'] - st['reactants']
                cand = {'zero': 0.0, 'barrier': (st['ts'] - st['reactants']) if has_ts else delta, 'delta': delta}
                want = max(cand.values())
                wants.append(want)
                m = dict(m0, q=q, has_ts=has_ts, winner=_winner(cand), rev=False)
                ctx.close('B1', got, want, TOL, m, scale=max(1.0, max(mag.values())), condition=c, candidates=cand,
                          row=row)
            if len(set(wants)) > 1:
                columns_differ = True
    if columns_differ:
        ctx.cls('ea_file:columns_differ')
        ctx.nontrivial()


# =========================================================================== driver
def run_case(spec, ctx):
    kind = spec['kind']
    if kind == 'ea_file':
        return _run_ea_file(spec, ctx)
    if kind in ('clamp', 'bep', 'A_surface'):
        _opt_classes(ctx, spec)
    if kind == 'clamp' and spec.get('ts_history') == 'attach_later' and spec.get('ts') and not spec.get('bep'):
        # built without a transition state, which is then assigned through the public setters: the
        # clamps must see it exactly as if it had been given to the constructor
        rxn, objs = _build(dict(spec, ts=None))
        rxn.transition_state = [objs[n] for n, _ in spec['ts']]
        rxn.transition_state_stoich = [v for _, v in spec['ts']]
        ctx.cls('B1:ts_attached_later')
    else:
        rxn, objs = _build(spec)
    if kind == 'clamp':
        _run_clamp(spec, ctx, rxn, objs)
    elif kind == 'bep' and spec.get('siblings'):
        # ONE BEP object is the transition state of every reaction of the family; each reaction must see its
        # own descriptor, whatever was evaluated before (order drawn in the spec, first reaction revisited)
        ctx.cls('bep:shared')
        bep = objs[spec['bep']['name']]
        fam = [(spec, rxn, objs)]
        for sb in spec['siblings']:
            sub = dict(spec, species=sb['species'], reactants=sb['reactants'], products=sb['products'])
            r2, o2 = _build(sub, bep_obj=bep)
            fam.append((sub, r2, o2))
        order = spec.get('order') or list(range(len(fam))) + [0]
        ctx.cls('bep:shared:first=%s' % ('main' if order[0] == 0 else 'sibling'))
        for i in order:
            sub, r, o = fam[i]
            _run_bep(sub, ctx, r, o)
    elif kind == 'bep':
        _run_bep(spec, ctx, rxn, objs)
    elif kind == 'A_reaction':
        _run_A_reaction(spec, ctx, rxn, objs)
    elif kind == 'A_surface':
        _run_A_surface(spec, ctx, rxn, objs)
    else:
        raise core.HarnessError('unknown kind %r' % kind)

"""C08  Reaction quantities obey Hess's law, reversal symmetry and detailed balance.

H1 delta X = sum nu X(products|TS) - sum nu X(reactants), and X_state = sum nu X, each
   species evaluated through its own getter with global conditions + its own block
H2 reversing the direction flips the sign (inverts the q ratio)
H3 act(fwd) - act(rev) = delta (unclamped getters)
H4 partition-function ratios multiply
H5 Keq = exp(-dG/RT), K_f * K_r = 1
H6 a block addressed to one species changes only that species' term
H3e Arrhenius form: get_EoRT_act(rev, del_m) = delta_HoRT(rev, act=True) + 1 - del_m for every explicit del_m
    (0 and 0.0 included; None = molecularity of TS minus initial state), hence fwd - rev = delta H for equal del_m
H7 the caller's condition dictionary is left unmodified
RT online invariant at the return of pmutt._get_specie_kwargs: the dict handed to a species
   contains exactly the global keys plus that species' block
"""
import copy
import math

from vf import core
from vf.gen import reactions as RG
from vf.gen import species as S_

ID = 'C08'
N = {'quick': 12000, 'thorough': 250000}
NT_RULE = ('reactions with 1-4 reactants/products, coefficients 0.25-4, 0-2 TS species, species any mix of '
           'StatMech / Nasa / Nasa9 / Shomate; Reaction, ChemkinReaction, SurfaceReaction; T 250-3500 K, P, '
           'per-species <name>_kwargs blocks; all (rev, act).  non-trivial = fractional coefficient or TS or a '
           'per-species block; distinct = distinct canonical JSON')
REQUIRED_ORACLES = ['H1', 'H2', 'H3', 'H3e', 'H4', 'H5', 'H6', 'H7', 'RT']
REQUIRED_CLASSES = ['cls:Reaction', 'cls:ChemkinReaction', 'cls:SurfaceReaction', 'flavor:statmech',
                    'flavor:mixed', 'flavor:empirical', 'ts:0', 'ts:1', 'ts:2', 'block', 'block:falsy_override', 'fractional',
                    'twin:same_name_other_object', 'twin:block_addressed', 'E_act:del_m=0', 'E_act:del_m=None',
                    'E_act:del_m=0:molecularity_changes', 'block:before_shared_condition', 'keq:edge_window', 'keq:edge_window:>700',
                    'bep_ts', 'bep_ts:block', 'bep_ts:no_shared_keyword', 'bep_ts:entropy_state=products', 'bep_ts:entropy_state=None',
                    'bep_ts:bep=omkm', 'bep_ts:bep=plain', 'bep_ts:direction_labels_differ',
                    'hist:species_renamed', 'name:api_word', 'name:api_word:block_addressed']
REQUIRED_PROBES = ['Reaction.get_state_quantity', 'Reaction.get_delta_quantity', '_get_specie_kwargs',
                   '_force_pass_arguments', '_get_states']
ASSUMPTIONS = ['ChemkinReaction / SurfaceReaction are driven with empirical species only (they require a phase) '
               'and only through their unclamped getters (get_delta_*, get_*_state, get_Keq, Cv/Cp/U/S/F act)',
               'K checks are skipped (telemetry) when |dG/RT| > 600 (exp overflow is not a defect)']

Q_STATMECH = ['CvoR', 'CpoR', 'UoRT', 'HoRT', 'SoR', 'FoRT', 'GoRT', 'EoRT']
Q_EMPIRICAL = ['CpoR', 'HoRT', 'SoR', 'GoRT']
CLAMPED = {'ChemkinReaction': ('HoRT', 'GoRT'), 'SurfaceReaction': ('HoRT', 'GoRT', 'EoRT')}


def directed(tier):
    return []


def generate(rng, tier):
    if rng.random() < 0.06:
        return _gen_bep_ts(rng)
    spec = RG.gen_reaction(rng, twins=True)
    if rng.random() < 0.12 and not spec.get('twin'):
        _api_word_names(rng, spec)
    spec['cond'] = RG.gen_conditions(rng, spec)
    if spec.get('api_word'):
        # always address one of the API-word species with a block
        spec['cond']['%s_kwargs' % rng.choice(spec['api_word'])] = {'P': S_.logu(rng, 1e-3, 1e2, 4)}
    if rng.random() < 0.3:
        # keyword order is the caller's business: blocks may come before the shared conditions
        items = list(spec['cond'].items())
        rng.shuffle(items)
        spec['cond'] = dict(items)
        spec['cond_order'] = 'shuffled'
    spec['keq_edge'] = rng.random() < 0.25
    return spec


API_WORDS = ['TS', 'ts', 'reactants', 'products', 'transition_state', 'specie', 'species', 'state', 'reaction']


def _api_word_names(rng, spec):
    """rename 1-2 species (preferably in a state with >= 2 species) to words the API itself uses (state names ...):
    a block '<word>_kwargs' addresses the species of that name and nothing else"""
    sides = [spec['reactants'], spec['products']] + ([spec['ts']] if spec['ts'] else [])
    sides.sort(key=lambda sd: -len(sd))
    words = rng.sample(API_WORDS, 2)
    used = []
    for side, w in zip(sides[:rng.choice([1, 2])], words):
        j = rng.randrange(len(side))
        old = side[j][0]
        if old not in spec['species'] or w in spec['species']:
            continue
        sp = spec['species'].pop(old)
        sp['name'] = w
        spec['species'][w] = sp
        for sd in sides:
            for item in sd:
                if item[0] == old:
                    item[0] = w
        used.append(w)
    if used:
        spec['api_word'] = used


def _gen_bep_ts(rng):
    """a Reaction whose transition state is a Bronsted-Evans-Polanyi object, with a block addressed to it"""
    spec = RG.gen_reaction(rng, flavor='empirical', cls='Reaction', ts=True, n_ts=1)
    for nm, _ in spec['ts']:
        spec['species'].pop(nm, None)
    spec['ts'] = [['@bep', 1]]
    spec['bep'] = {'slope': round(rng.uniform(0, 1), 3), 'intercept': round(rng.uniform(0, 40), 3),
                   'descriptor': rng.choice(['delta_H', 'rev_delta_H']), 'name': rng.choice(['OH_bep', 'bep1', 'TS_CH'])}
    spec['cond'] = RG.gen_conditions(rng, spec, with_blocks=False)
    spec['bep_block'] = rng.choice([{'entropy_state': 'products'}, {'entropy_state': 'reactants'},
                                    {'entropy_state': None}, None])
    # the reaction class and the direction labels of the OpenMKM flavours carry no thermodynamic meaning
    spec['rx_cls'] = rng.choice(['Reaction', 'Reaction', 'SurfaceReaction', 'SurfaceReaction'])
    if spec['rx_cls'] == 'SurfaceReaction':
        spec['bep_cls'] = 'omkm'
        spec['rx_direction'] = rng.choice([None, 'cleavage', 'synthesis'])
        spec['bep_direction'] = rng.choice([None, 'cleavage', 'synthesis'])
    else:
        spec['bep_cls'] = rng.choice(['plain', 'omkm'])
        spec['bep_direction'] = rng.choice([None, 'cleavage', 'synthesis']) if spec['bep_cls'] == 'omkm' else None
    spec['kind'] = 'bep_ts'
    return spec


_RT = {'ctx': None}


def _routing_call(label, loc):
    kw = loc.get('kwargs') or {}
    return (loc.get('specie_name'), copy.deepcopy(kw))


def _routing_ret(label, ret, snap):
    ctx = _RT['ctx']
    if ctx is None or not isinstance(snap, tuple) or snap[0] == 'probe-error':
        return
    name, kw = snap
    want = RG.species_kwargs(name, kw) if isinstance(name, str) else \
        {k: v for k, v in kw.items() if not k.endswith('_kwargs')}
    try:
        same = (set(ret) == set(want)) and all(ret[k] == want[k] or ret[k] is want[k] for k in want)
    except Exception:
        same = False
    if same:
        ctx.held('RT')
    else:
        ctx.fail('RT', {'what': 'routing'}, name=name, got=ret, want=want)


def install_probes(pr, ctx):
    _RT['ctx'] = ctx
    def rx():
        import pmutt.reaction
        return pmutt.reaction
    pr.watch(lambda: rx().Reaction.get_state_quantity, 'Reaction.get_state_quantity')
    pr.watch(lambda: rx().Reaction.get_delta_quantity, 'Reaction.get_delta_quantity')
    pr.watch(lambda: rx().Reaction._parse_state, 'Reaction._parse_state')
    pr.watch(lambda: rx()._get_states, '_get_states')
    pr.watch(lambda: __import__('pmutt')._get_specie_kwargs, '_get_specie_kwargs', on_call=_routing_call,
             on_ret=_routing_ret)
    pr.watch(lambda: __import__('pmutt')._force_pass_arguments, '_force_pass_arguments')


def _f(x):
    import numpy as np
    return float(np.squeeze(x))


def _bep_ts(spec, ctx):
    """H1 / H3 / H7 with a BEP transition state: TS enthalpy = H(reactants) + Ea with Ea = adjusted slope x
    descriptor + intercept (kcal/mol), TS entropy = S(entropy_state) (default reactants, None -> 0); the block
    addressed to the BEP reaches the BEP only and the caller's (nested) dictionaries stay as they were"""
    from pmutt.reaction import Reaction
    from pmutt.reaction.bep import BEP
    from pmutt import constants as c
    from vf.gen import species as S
    objs = {n: S.build(sp) for n, sp in spec['species'].items()}
    b = spec['bep']
    rx_cls, bep_cls = spec.get('rx_cls', 'Reaction'), spec.get('bep_cls', 'plain')
    if bep_cls == 'omkm':
        from pmutt.omkm.reaction import BEP as OmkmBEP
        bep = OmkmBEP(slope=b['slope'], intercept=b['intercept'], descriptor=b['descriptor'], name=b['name'],
                      direction=spec.get('bep_direction'))
    else:
        bep = BEP(slope=b['slope'], intercept=b['intercept'], descriptor=b['descriptor'], name=b['name'])
    kw = dict(reactants=[objs[n] for n, _ in spec['reactants']], reactants_stoich=[v for _, v in spec['reactants']],
              products=[objs[n] for n, _ in spec['products']], products_stoich=[v for _, v in spec['products']],
              transition_state=[bep], transition_state_stoich=[1])
    if rx_cls == 'SurfaceReaction':
        from pmutt.omkm.reaction import SurfaceReaction
        rxn = SurfaceReaction(direction=spec.get('rx_direction'), **kw)
        ctx.cls('bep_ts:SurfaceReaction:direction=%s:bep_direction=%s' % (spec.get('rx_direction'), spec.get('bep_direction')))
        if spec.get('rx_direction') and spec.get('bep_direction') and spec['rx_direction'] != spec['bep_direction']:
            ctx.cls('bep_ts:direction_labels_differ')
    else:
        rxn = Reaction(**kw)
    ctx.cls('bep_ts:bep=' + bep_cls)
    cond = dict(spec['cond'])
    block = spec.get('bep_block')
    if block is not None:
        cond['%s_kwargs' % b['name']] = dict(block)
        ctx.cls('bep_ts:block')
    ctx.cls('bep_ts', 'bep_ts:entropy_state=%s' % (block or {}).get('entropy_state', 'default'))
    ctx.nontrivial()
    snapshot = copy.deepcopy(cond)
    T = cond['T']
    base = {'cls': rx_cls, 'ts': 'BEP'}
    try:
        ref = {q: {st: RG.state_sum(objs, spec[st], 'get_' + q, cond) for st in ('reactants', 'products')}
               for q in ('HoRT', 'SoR')}
    except Exception as e:
        ctx.inconc('H1', 'species getter raised', exc=repr(e)[:200])
        return
    Rk = c.R('kcal/mol/K')
    hr, hp = ref['HoRT']['reactants'][0], ref['HoRT']['products'][0]
    dH = (hp - hr) * Rk * T
    ea = b['slope'] * dH + b['intercept'] if b['descriptor'] == 'delta_H' else (b['slope'] - 1.0) * (-dH) + b['intercept']
    es = (block or {}).get('entropy_state', 'reactants')
    ts = {'HoRT': hr + ea / (Rk * T), 'SoR': 0.0 if es is None else ref['SoR'][es][0]}
    ts['GoRT'] = ts['HoRT'] - ts['SoR']
    state = {q: {'reactants': ref[q]['reactants'][0], 'products': ref[q]['products'][0], 'ts': ts[q]} for q in ('HoRT', 'SoR')}
    state['GoRT'] = {st: state['HoRT'][st] - state['SoR'][st] for st in ('reactants', 'products', 'ts')}
    mag = max(1.0, ref['HoRT']['reactants'][1], ref['HoRT']['products'][1], ref['SoR']['reactants'][1],
              ref['SoR']['products'][1], abs(ea / (Rk * T)))
    for q in ('HoRT', 'SoR', 'GoRT'):
        got = {}
        for rev in (False, True):
            ini = 'products' if rev else 'reactants'
            mm = dict(base, q=q, form='delta', rev=rev, act=True)
            g = ctx.call('H1', mm, getattr(rxn, 'get_delta_' + q), rev=rev, act=True, **cond)
            if g is core.NOVALUE:
                continue
            got[rev] = _f(g)
            ctx.close('H1', got[rev], state[q]['ts'] - state[q][ini], 1e-10, mm, scale=mag)
        if len(got) == 2:
            ctx.close('H3', got[False] - got[True], state[q]['products'] - state[q]['reactants'], 1e-10,
                      dict(base, q=q, form='delta', what='fwd-rev'), scale=mag)
        g = ctx.call('H1', dict(base, q=q, form='state'), getattr(rxn, 'get_%s_state' % q), state='ts', **cond)
        if g is not core.NOVALUE:
            ctx.close('H1', _f(g), state[q]['ts'], 1e-10, dict(base, q=q, form='state'), scale=mag)
    ka = ctx.call('H5', dict(base, what='Keq_act'), rxn.get_Keq, act=True, **cond)
    dGa = state['GoRT']['ts'] - state['GoRT']['reactants']
    if ka is not core.NOVALUE and abs(dGa) < 700 and _f(ka) > 0:
        ctx.close('H5', math.log(_f(ka)), -dGa, 1e-9, dict(base, what='Keq_act'), scale=max(1.0, abs(dGa), mag))
    ctx.check('H7', cond == snapshot, dict(base, what='conditions_mutated'), before=repr(snapshot)[:300],
              after=repr(cond)[:300])
    # the same call with NO shared keyword at all: every condition travels inside the per-species blocks (the BEP's
    # block included); the caller's nested dictionaries must come back as they went in and the value is the same
    shared = {k: v for k, v in cond.items() if not k.endswith('_kwargs')}
    names = [n for n, _ in spec['reactants']] + [n for n, _ in spec['products']] + [b['name']]
    cond2 = {}
    for n in dict.fromkeys(names):
        blk = dict(shared)
        blk.update(cond.get('%s_kwargs' % n, {}))
        cond2['%s_kwargs' % n] = blk
    snap2 = copy.deepcopy(cond2)
    for q in ('HoRT', 'GoRT'):
        try:
            g2 = getattr(rxn, 'get_delta_' + q)(rev=False, act=True, **cond2)
        except Exception as e:
            ctx.extra['H7:no_shared_keyword_call_raised'] = ctx.extra.get('H7:no_shared_keyword_call_raised', 0) + 1
            continue
        ctx.cls('bep_ts:no_shared_keyword')
        ctx.check('H7', cond2 == snap2, dict(base, what='nested_block_mutated', call='no_shared_keyword'),
                  before=repr(snap2)[:300], after=repr(cond2)[:300])
        cond2 = copy.deepcopy(snap2)


def run_case(spec, ctx):
    if spec.get('kind') == 'bep_ts':
        return _bep_ts(spec, ctx)
    rxn, objs = RG.build_reaction(spec)
    cond = spec['cond']
    cls, flavor = spec['cls'], spec['flavor']
    nts = len(spec['ts']) if spec['ts'] else 0
    ctx.cls('cls:' + cls, 'flavor:' + flavor, 'ts:%d' % nts)
    has_block = any(k.endswith('_kwargs') for k in cond)
    frac = any(v != int(v) for _, v in spec['reactants'] + spec['products'] + (spec['ts'] or []))
    if has_block:
        ctx.cls('block')
    if spec.get('cond_order') == 'shuffled' and has_block and \
            list(cond).index([k for k in cond if k.endswith('_kwargs')][0]) < len(cond) - 1:
        ctx.cls('block:before_shared_condition')
    if spec.get('api_word'):
        ctx.cls('name:api_word')
        if any('%s_kwargs' % w in cond for w in spec['api_word']):
            ctx.cls('name:api_word:block_addressed')
    if spec.get('twin'):
        ctx.cls('twin:same_name_other_object')
        if '%s_kwargs' % RG.shown(spec['twin']) in cond:
            ctx.cls('twin:block_addressed')
    if frac:
        ctx.cls('fractional')
    ctx.nontrivial(has_block or frac or nts > 0)
    all_statmech = all(s['type'] == 'StatMech' for s in spec['species'].values())
    quantities = Q_STATMECH if all_statmech else Q_EMPIRICAL
    sides = {'reactants': spec['reactants'], 'products': spec['products']}
    if nts:
        sides['ts'] = spec['ts']
    snapshot = copy.deepcopy(cond)
    base = {'cls': cls}
    for X in quantities:
        m = dict(base, q=X)
        extra = {'include_ZPE': True} if X == 'EoRT' and (ctx.case_index or 0) % 2 else {}
        c2 = dict(cond, **extra)
        if extra and (ctx.case_index or 0) % 4 == 1:
            # a block that overrides a shared condition with a *falsy* value for one species
            nm0 = spec['reactants'][0][0]
            c2['%s_kwargs' % nm0] = dict(c2.get('%s_kwargs' % nm0, {}), include_ZPE=False)
            ctx.cls('block:falsy_override')
        ref, mag = {}, {}
        try:
            for st, side in sides.items():
                ref[st], mag[st] = RG.state_sum(objs, side, 'get_' + X, c2)
        except Exception as e:
            ctx.inconc('H1', 'species getter raised', q=X, exc=repr(e)[:200])
            continue
        # --- state quantities
        for st in sides:
            stname = {'ts': rng_choice_state(ctx)}.get(st, st)
            g = ctx.call('H1', dict(m, form='state'), getattr(rxn, 'get_%s_state' % X), state=stname, **c2)
            if g is not core.NOVALUE:
                ctx.close('H1', _f(g), ref[st], 1e-10, dict(m, form='state'), scale=max(1.0, mag[st]), state=st)
        # --- deltas, all (rev, act)
        delta = {}
        for rev in (False, True):
            for act in ((False, True) if nts else (False,)):
                ini = 'products' if rev else 'reactants'
                fin = 'ts' if act else ('reactants' if rev else 'products')
                mm = dict(m, form='delta', rev=rev, act=act)
                g = ctx.call('H1', mm, getattr(rxn, 'get_delta_' + X), rev=rev, act=act, **c2)
                if g is core.NOVALUE:
                    continue
                g = _f(g)
                delta[(rev, act)] = g
                ctx.close('H1', g, ref[fin] - ref[ini], 1e-10, mm, scale=max(1.0, mag[fin], mag[ini]))
        if (False, False) in delta and (True, False) in delta:
            ctx.check('H2', delta[(True, False)] == -delta[(False, False)], dict(m, what='sign'),
                      fwd=delta[(False, False)], rev=delta[(True, False)])
        # --- activation getters (unclamped ones)
        # (get_EoRT_act is the Arrhenius activation energy, not an electronic-energy difference)
        if nts and X != 'EoRT' and X not in CLAMPED.get(cls, ()):
            acts = {}
            for rev in (False, True):
                mm = dict(m, form='act', rev=rev)
                kw = dict(c2)
                g = ctx.call('H3', mm, getattr(rxn, 'get_%s_act' % X), rev=rev, **kw)
                if g is not core.NOVALUE:
                    acts[rev] = _f(g)
                    if (rev, True) in delta:
                        ctx.close('H3', acts[rev], delta[(rev, True)], 1e-12, dict(mm, what='act=delta(act=True)'),
                                  scale=max(1.0, mag['ts']))
            if len(acts) == 2 and (False, False) in delta:
                ctx.close('H3', acts[False] - acts[True], delta[(False, False)], 1e-10, dict(m, form='act', what='fwd-rev'),
                          scale=max(1.0, mag['ts'], mag['reactants'], mag['products']))
        if nts and (False, True) in delta and (True, True) in delta and (False, False) in delta:
            ctx.close('H3', delta[(False, True)] - delta[(True, True)], delta[(False, False)], 1e-10,
                      dict(m, form='delta', what='fwd-rev'),
                      scale=max(1.0, mag['ts'], mag['reactants'], mag['products']))
    # --- Arrhenius activation energy (documented: E/RT = dH_act/RT + 1 - del_m)
    if nts and cls == 'Reaction':
        try:
            href = {st: RG.state_sum(objs, side, 'get_HoRT', cond) for st, side in sides.items()}
        except Exception as e:
            href = None
            ctx.inconc('H3e', 'species getter raised', exc=repr(e)[:200])
        if href is not None:
            msum = {st: sum(v for _, v in side) for st, side in sides.items()}
            mg = max(1.0, href['ts'][1], href['reactants'][1], href['products'][1])
            for label, dm in (('default', 'default'), ('1', 1), ('0', 0), ('0.0', 0.0), ('-1', -1), ('2', 2),
                              ('None', None)):
                got = {}
                for rev in (False, True):
                    ini = 'products' if rev else 'reactants'
                    kw = dict(cond) if dm == 'default' else dict(cond, del_m=dm)
                    mm = dict(base, q='EoRT_act', del_m=label, rev=rev)
                    g = ctx.call('H3e', mm, rxn.get_EoRT_act, rev=rev, **kw)
                    if g is core.NOVALUE:
                        continue
                    got[rev] = _f(g)
                    d = 1 if dm == 'default' else (msum['ts'] - msum[ini] if dm is None else dm)
                    ctx.close('H3e', got[rev], href['ts'][0] - href[ini][0] + 1 - d, 1e-10, mm, scale=mg)
                if label in ('0', '0.0'):
                    ctx.cls('E_act:del_m=0')
                    if msum['reactants'] != msum['ts'] or msum['products'] != msum['ts']:
                        ctx.cls('E_act:del_m=0:molecularity_changes')
                elif label == 'None':
                    ctx.cls('E_act:del_m=None')
                elif len(got) == 2:
                    pass
                if len(got) == 2 and dm is not None:
                    ctx.close('H3e', got[False] - got[True], href['products'][0] - href['reactants'][0], 1e-10,
                              dict(base, q='EoRT_act', del_m=label, what='fwd-rev'), scale=mg)
    # --- partition functions
    if all_statmech:
        qc = dict(cond, ignore_q_elec=True)
        try:
            lq = {}
            for st, side in sides.items():
                lq[st] = sum(nu * math.log(_f(RG.call_getter(objs[n], 'get_q', RG.species_kwargs(n, qc))))
                             for n, nu in side)
        except Exception as e:      # q = 0 (monatomic rotor), NotImplementedError (quasi-RRHO q) ...
            lq = None
            ctx.inconc('H4', 'q not positive/finite', exc=repr(e)[:100])
        if lq is not None:
            for rev in (False, True):
                for act in ((False, True) if nts else (False,)):
                    ini = 'products' if rev else 'reactants'
                    fin = 'ts' if act else ('reactants' if rev else 'products')
                    mm = dict(base, q='q', rev=rev, act=act)
                    g = ctx.call('H4', mm, rxn.get_delta_q, rev=rev, act=act, **qc)
                    if g is core.NOVALUE:
                        continue
                    g = _f(g)
                    if not (g > 0 and math.isfinite(g)):
                        ctx.inconc('H4', 'delta q overflow', value=repr(g))
                        continue
                    want = lq[fin] - lq[ini]
                    ctx.close('H4', math.log(g), want, 1e-9, mm, scale=max(1.0, abs(lq[fin]), abs(lq[ini])))
            for st in sides:
                g = ctx.call('H4', dict(base, q='q', form='state'), rxn.get_q_state, state=st, **qc)
                if g is not core.NOVALUE and _f(g) > 0 and math.isfinite(_f(g)):
                    ctx.close('H4', math.log(_f(g)), lq[st], 1e-9, dict(base, q='q', form='state'),
                              scale=max(1.0, abs(lq[st])))
    # --- equilibrium constant
    dG = {}
    for rev in (False, True):
        g = ctx.call('H5', dict(base, what='delta_GoRT'), rxn.get_delta_GoRT, rev=rev, **cond)
        if g is not core.NOVALUE:
            dG[rev] = _f(g)
    if len(dG) == 2 and abs(dG[False]) < 705:
        K = {}
        for rev in (False, True):
            k = ctx.call('H5', dict(base, what='Keq', rev=rev), rxn.get_Keq, rev=rev, **cond)
            if k is not core.NOVALUE:
                K[rev] = _f(k)
                ctx.close('H5', math.log(K[rev]) if K[rev] > 0 else float('nan'), -dG[rev], 1e-9,
                          dict(base, what='Keq=exp(-dG)', rev=rev), scale=max(1.0, abs(dG[rev])))
        if len(K) == 2:
            ctx.close('H5', math.log(K[False]) + math.log(K[True]), 0.0, 1e-9, dict(base, what='KfKr=1'),
                      scale=max(1.0, abs(dG[False])))
        if nts:
            ka = ctx.call('H5', dict(base, what='Keq_act'), rxn.get_Keq, act=True, **cond)
            ga = ctx.call('H5', dict(base, what='Keq_act'), rxn.get_delta_GoRT, act=True, **cond)
            if core.NOVALUE not in (ka, ga) and abs(_f(ga)) < 705:
                ctx.close('H5', math.log(_f(ka)), -_f(ga), 1e-9, dict(base, what='Keq_act'), scale=max(1.0, abs(_f(ga))))
    else:
        ctx.extra['H5_skipped_overflow'] = ctx.extra.get('H5_skipped_overflow', 0) + 1
    # --- equilibrium constants next to the overflow edge of exp(): 690 < |dG/RT| < 707 (K ~ 1e+-305 is still a
    #     finite, normal double); the temperature is chosen by bisection on the REFERENCE dG/RT
    if spec.get('keq_edge'):
        T_lo = 30.0 if all_statmech else RG.T_LO

        def dG_ref(T_):
            c_ = dict(cond, T=T_)
            return (RG.state_sum(objs, spec['products'], 'get_GoRT', c_)[0]
                    - RG.state_sum(objs, spec['reactants'], 'get_GoRT', c_)[0])
        try:
            lo, hi = T_lo, cond['T']
            if lo < hi and abs(dG_ref(lo)) > 700 > abs(dG_ref(hi)):
                for _ in range(60):
                    mid = 0.5 * (lo + hi)
                    if abs(dG_ref(mid)) > 700:
                        lo = mid
                    else:
                        hi = mid
                for T_e in (lo * (1 - 2e-3), lo * (1 - 6e-3), hi * (1 + 5e-3)):
                    want = dG_ref(T_e)
                    if not 660 < abs(want) < 707:
                        continue
                    c_e = dict(cond, T=T_e)
                    for rev in (False, True):
                        k = ctx.call('H5', dict(base, what='Keq_edge', rev=rev), rxn.get_Keq, rev=rev, **c_e)
                        if k is core.NOVALUE:
                            continue
                        w = -want if not rev else want
                        ctx.cls('keq:edge_window' + (':>700' if abs(want) > 700 else ''))
                        ctx.close('H5', math.log(_f(k)) if _f(k) > 0 else float('nan'), w, 1e-9,
                                  dict(base, what='Keq=exp(-dG)', rev=rev, window='|dG/RT| 660-707'),
                                  scale=max(1.0, abs(want)), T=T_e)
        except Exception as e:
            ctx.inconc('H5', 'reference raised near the exp() edge', exc=repr(e)[:200])
    # --- H6: a block for one species moves only that species' term
    names = sorted(set(RG.shown(n) for side in sides.values() for n, _ in side))
    tgt = names[(ctx.case_index or 0) % len(names)]
    if spec.get('twin') and (ctx.case_index or 0) % 2:
        tgt = RG.shown(spec['twin'])
    X = 'SoR' if 'SoR' in quantities else quantities[0]
    c_no = {k: v for k, v in cond.items() if k != '%s_kwargs' % tgt}
    c_yes = dict(c_no)
    c_yes['%s_kwargs' % tgt] = {'P': 7.5 * cond.get('P', 1.0)}
    mm = dict(base, q=X)
    d0 = ctx.call('H6', mm, getattr(rxn, 'get_delta_' + X), **c_no)
    d1 = ctx.call('H6', mm, getattr(rxn, 'get_delta_' + X), **c_yes)
    if core.NOVALUE not in (d0, d1):
        try:
            # every object that carries the addressed name moves (twins share a name), nothing else does
            want_move, moved = 0.0, False
            for key in sorted(set(n for n, _ in spec['products'] + spec['reactants'] if RG.shown(n) == tgt)):
                x0 = _f(RG.call_getter(objs[key], 'get_' + X, RG.species_kwargs(key, c_no)))
                x1 = _f(RG.call_getter(objs[key], 'get_' + X, RG.species_kwargs(key, c_yes)))
                nu = sum(v for n, v in spec['products'] if n == key) - sum(v for n, v in spec['reactants'] if n == key)
                want_move += nu * (x1 - x0)
                moved = moved or x1 != x0
            ctx.close('H6', _f(d1) - _f(d0), want_move, 1e-9, mm, scale=max(1.0, abs(_f(d0))),
                      target=tgt, moved=want_move)
            if moved:
                ctx.nontrivial()
        except Exception as e:
            ctx.inconc('H6', 'species getter raised', exc=repr(e)[:200])
    # --- H7: caller's dict untouched
    ctx.check('H7', cond == snapshot, dict(base, what='conditions_mutated'), before=snapshot, after=cond)
    # --- history: a species of the live, already evaluated reaction is renamed in place; blocks are addressed by
    #     the name the species carries NOW
    if not spec.get('twin') and (ctx.case_index or 0) % 3 == 0:
        key = names[(ctx.case_index or 0) % len(names)]
        if key in objs and key in [n for n, _ in spec['reactants'] + spec['products']]:
            new = key + '(g)'
            ctx.cls('hist:species_renamed')
            objs[key].name = new
            try:
                c_plain = {k: v for k, v in cond.items() if not k.endswith('_kwargs')}
                c_new = dict(c_plain, **{'%s_kwargs' % new: {'P': 7.5 * cond.get('P', 1.0)}})
                c_old = dict(c_plain, **{'%s_kwargs' % key: {'P': 7.5 * cond.get('P', 1.0)}})
                mm = dict(base, q=X, hist='species_renamed')
                d0 = ctx.call('H6', mm, getattr(rxn, 'get_delta_' + X), **c_plain)
                d1 = ctx.call('H6', mm, getattr(rxn, 'get_delta_' + X), **c_new)
                d2 = ctx.call('H6', mm, getattr(rxn, 'get_delta_' + X), **c_old)
                if core.NOVALUE not in (d0, d1, d2):
                    x0 = _f(RG.call_getter(objs[key], 'get_' + X, c_plain))
                    x1 = _f(RG.call_getter(objs[key], 'get_' + X, dict(c_plain, P=7.5 * cond.get('P', 1.0))))
                    nu = sum(v for n, v in spec['products'] if n == key) - sum(v for n, v in spec['reactants'] if n == key)
                    ctx.close('H6', _f(d1) - _f(d0), nu * (x1 - x0), 1e-9, dict(mm, block='new_name'),
                              scale=max(1.0, abs(_f(d0))))
                    ctx.close('H6', _f(d2) - _f(d0), 0.0, 1e-9, dict(mm, block='old_name'), scale=max(1.0, abs(_f(d0))))
            except Exception as e:
                ctx.inconc('H6', 'species getter raised', exc=repr(e)[:200])
            finally:
                objs[key].name = key


def rng_choice_state(ctx):
    return ['ts', 'transition state', 'transition_state', 'TS'][(ctx.case_index or 0) % 4]

"""C08  Reaction quantities obey Hess's law, reversal symmetry and detailed balance.

H1 delta X = sum nu X(products|TS) - sum nu X(reactants), and X_state = sum nu X, each
   species evaluated through its own getter with global conditions + its own block
H2 reversing the direction flips the sign (inverts the q ratio)
H3 act(fwd) - act(rev) = delta (unclamped getters)
H4 partition-function ratios multiply
H5 Keq = exp(-dG/RT), K_f * K_r = 1
H6 a block addressed to one species changes only that species' term
H3e Arrhenius form: get_EoRT_act(rev, del_m) = delta_HoRT(rev, act=True) + 1 - del_m for every explicit del_m
    (0 and 0.0 included; None = molecularity of TS minus initial state), hence fwd - rev = delta H for equal del_m
H7 the caller's condition dictionary is left unmodified
RT online invariant at the return of pmutt._get_specie_kwargs: the dict handed to a species
   contains exactly the global keys plus that species' block
"""
import copy
import math

from vf import core
from vf.gen import reactions as RG

ID = 'C08'
N = {'quick': 6000, 'thorough': 100000}
NT_RULE = ('reactions with 1-4 reactants/products, coefficients 0.25-4, 0-2 TS species, species any mix of '
           'StatMech / Nasa / Nasa9 / Shomate; Reaction, ChemkinReaction, SurfaceReaction; T 250-3500 K, P, '
           'per-species <name>_kwargs blocks; all (rev, act).  non-trivial = fractional coefficient or TS or a '
           'per-species block; distinct = distinct canonical JSON')
REQUIRED_ORACLES = ['H1', 'H2', 'H3', 'H3e', 'H4', 'H5', 'H6', 'H7', 'RT']
REQUIRED_CLASSES = ['cls:Reaction', 'cls:ChemkinReaction', 'cls:SurfaceReaction', 'flavor:statmech',
                    'flavor:mixed', 'flavor:empirical', 'ts:0', 'ts:1', 'ts:2', 'block', 'block:falsy_override', 'fractional',
                    'twin:same_name_other_object', 'twin:block_addressed', 'E_act:del_m=0', 'E_act:del_m=None',
                    'E_act:del_m=0:molecularity_changes']
REQUIRED_PROBES = ['Reaction.get_state_quantity', 'Reaction.get_delta_quantity', '_get_specie_kwargs',
                   '_force_pass_arguments', '_get_states']
ASSUMPTIONS = ['ChemkinReaction / SurfaceReaction are driven with empirical species only (they require a phase) '
               'and only through their unclamped getters (get_delta_*, get_*_state, get_Keq, Cv/Cp/U/S/F act)',
               'K checks are skipped (telemetry) when |dG/RT| > 600 (exp overflow is not a defect)']

Q_STATMECH = ['CvoR', 'CpoR', 'UoRT', 'HoRT', 'SoR', 'FoRT', 'GoRT', 'EoRT']
Q_EMPIRICAL = ['CpoR', 'HoRT', 'SoR', 'GoRT']
CLAMPED = {'ChemkinReaction': ('HoRT', 'GoRT'), 'SurfaceReaction': ('HoRT', 'GoRT', 'EoRT')}


def directed(tier):
    return []


def generate(rng, tier):
    spec = RG.gen_reaction(rng, twins=True)
    spec['cond'] = RG.gen_conditions(rng, spec)
    return spec


_RT = {'ctx': None}


def _routing_call(label, loc):
    kw = loc.get('kwargs') or {}
    return (loc.get('specie_name'), copy.deepcopy(kw))


def _routing_ret(label, ret, snap):
    ctx = _RT['ctx']
    if ctx is None or not isinstance(snap, tuple) or snap[0] == 'probe-error':
        return
    name, kw = snap
    want = RG.species_kwargs(name, kw) if isinstance(name, str) else \
        {k: v for k, v in kw.items() if not k.endswith('_kwargs')}
    try:
        same = (set(ret) == set(want)) and all(ret[k] == want[k] or ret[k] is want[k] for k in want)
    except Exception:
        same = False
    if same:
        ctx.held('RT')
    else:
        ctx.fail('RT', {'what': 'routing'}, name=name, got=ret, want=want)


def install_probes(pr, ctx):
    _RT['ctx'] = ctx
    def rx():
        import pmutt.reaction
        return pmutt.reaction
    pr.watch(lambda: rx().Reaction.get_state_quantity, 'Reaction.get_state_quantity')
    pr.watch(lambda: rx().Reaction.get_delta_quantity, 'Reaction.get_delta_quantity')
    pr.watch(lambda: rx().Reaction._parse_state, 'Reaction._parse_state')
    pr.watch(lambda: rx()._get_states, '_get_states')
    pr.watch(lambda: __import__('pmutt')._get_specie_kwargs, '_get_specie_kwargs', on_call=_routing_call,
             on_ret=_routing_ret)
    pr.watch(lambda: __import__('pmutt')._force_pass_arguments, '_force_pass_arguments')


def _f(x):
    import numpy as np
    return float(np.squeeze(x))


def run_case(spec, ctx):
    rxn, objs = RG.build_reaction(spec)
    cond = spec['cond']
    cls, flavor = spec['cls'], spec['flavor']
    nts = len(spec['ts']) if spec['ts'] else 0
    ctx.cls('cls:' + cls, 'flavor:' + flavor, 'ts:%d' % nts)
    has_block = any(k.endswith('_kwargs') for k in cond)
    frac = any(v != int(v) for _, v in spec['reactants'] + spec['products'] + (spec['ts'] or []))
    if has_block:
        ctx.cls('block')
    if spec.get('twin'):
        ctx.cls('twin:same_name_other_object')
        if '%s_kwargs' % RG.shown(spec['twin']) in cond:
            ctx.cls('twin:block_addressed')
    if frac:
        ctx.cls('fractional')
    ctx.nontrivial(has_block or frac or nts > 0)
    all_statmech = all(s['type'] == 'StatMech' for s in spec['species'].values())
    quantities = Q_STATMECH if all_statmech else Q_EMPIRICAL
    sides = {'reactants': spec['reactants'], 'products': spec['products']}
    if nts:
        sides['ts'] = spec['ts']
    snapshot = copy.deepcopy(cond)
    base = {'cls': cls}
    for X in quantities:
        m = dict(base, q=X)
        extra = {'include_ZPE': True} if X == 'EoRT' and (ctx.case_index or 0) % 2 else {}
        c2 = dict(cond, **extra)
        if extra and (ctx.case_index or 0) % 4 == 1:
            # a block that overrides a shared condition with a *falsy* value for one species
            nm0 = spec['reactants'][0][0]
            c2['%s_kwargs' % nm0] = dict(c2.get('%s_kwargs' % nm0, {}), include_ZPE=False)
            ctx.cls('block:falsy_override')
        ref, mag = {}, {}
        try:
            for st, side in sides.items():
                ref[st], mag[st] = RG.state_sum(objs, side, 'get_' + X, c2)
        except Exception as e:
            ctx.inconc('H1', 'species getter raised', q=X, exc=repr(e)[:200])
            continue
        # --- state quantities
        for st in sides:
            stname = {'ts': rng_choice_state(ctx)}.get(st, st)
            g = ctx.call('H1', dict(m, form='state'), getattr(rxn, 'get_%s_state' % X), state=stname, **c2)
            if g is not core.NOVALUE:
                ctx.close('H1', _f(g), ref[st], 1e-10, dict(m, form='state'), scale=max(1.0, mag[st]), state=st)
        # --- deltas, all (rev, act)
        delta = {}
        for rev in (False, True):
            for act in ((False, True) if nts else (False,)):
                ini = 'products' if rev else 'reactants'
                fin = 'ts' if act else ('reactants' if rev else 'products')
                mm = dict(m, form='delta', rev=rev, act=act)
                g = ctx.call('H1', mm, getattr(rxn, 'get_delta_' + X), rev=rev, act=act, **c2)
                if g is core.NOVALUE:
                    continue
                g = _f(g)
                delta[(rev, act)] = g
                ctx.close('H1', g, ref[fin] - ref[ini], 1e-10, mm, scale=max(1.0, mag[fin], mag[ini]))
        if (False, False) in delta and (True, False) in delta:
            ctx.check('H2', delta[(True, False)] == -delta[(False, False)], dict(m, what='sign'),
                      fwd=delta[(False, False)], rev=delta[(True, False)])
        # --- activation getters (unclamped ones)
        # (get_EoRT_act is the Arrhenius activation energy, not an electronic-energy difference)
        if nts and X != 'EoRT' and X not in CLAMPED.get(cls, ()):
            acts = {}
            for rev in (False, True):
                mm = dict(m, form='act', rev=rev)
                kw = dict(c2)
                g = ctx.call('H3', mm, getattr(rxn, 'get_%s_act' % X), rev=rev, **kw)
                if g is not core.NOVALUE:
                    acts[rev] = _f(g)
                    if (rev, True) in delta:
                        ctx.close('H3', acts[rev], delta[(rev, True)], 1e-12, dict(mm, what='act=delta(act=True)'),
                                  scale=max(1.0, mag['ts']))
            if len(acts) == 2 and (False, False) in delta:
                ctx.close('H3', acts[False] - acts[True], delta[(False, False)], 1e-10, dict(m, form='act', what='fwd-rev'),
                          scale=max(1.0, mag['ts'], mag['reactants'], mag['products']))
        if nts and (False, True) in delta and (True, True) in delta and (False, False) in delta:
            ctx.close('H3', delta[(False, True)] - delta[(True, True)], delta[(False, False)], 1e-10,
                      dict(m, form='delta', what='fwd-rev'),
                      scale=max(1.0, mag['ts'], mag['reactants'], mag['products']))
    # --- Arrhenius activation energy (documented: E/RT = dH_act/RT + 1 - del_m)
    if nts and cls == 'Reaction':
        try:
            href = {st: RG.state_sum(objs, side, 'get_HoRT', cond) for st, side in sides.items()}
        except Exception as e:
            href = None
            ctx.inconc('H3e', 'species getter raised', exc=repr(e)[:200])
        if href is not None:
            msum = {st: sum(v for _, v in side) for st, side in sides.items()}
            mg = max(1.0, href['ts'][1], href['reactants'][1], href['products'][1])
            for label, dm in (('default', 'default'), ('1', 1), ('0', 0), ('0.0', 0.0), ('-1', -1), ('2', 2),
                              ('None', None)):
                got = {}
                for rev in (False, True):
                    ini = 'products' if rev else 'reactants'
                    kw = dict(cond) if dm == 'default' else dict(cond, del_m=dm)
                    mm = dict(base, q='EoRT_act', del_m=label, rev=rev)
                    g = ctx.call('H3e', mm, rxn.get_EoRT_act, rev=rev, **kw)
                    if g is core.NOVALUE:
                        continue
                    got[rev] = _f(g)
                    d = 1 if dm == 'default' else (msum['ts'] - msum[ini] if dm is None else dm)
                    ctx.close('H3e', got[rev], href['ts'][0] - href[ini][0] + 1 - d, 1e-10, mm, scale=mg)
                if label in ('0', '0.0'):
                    ctx.cls('E_act:del_m=0')
                    if msum['reactants'] != msum['ts'] or msum['products'] != msum['ts']:
                        ctx.cls('E_act:del_m=0:molecularity_changes')
                elif label == 'None':
                    ctx.cls('E_act:del_m=None')
                elif len(got) == 2:
                    pass
                if len(got) == 2 and dm is not None:
                    ctx.close('H3e', got[False] - got[True], href['products'][0] - href['reactants'][0], 1e-10,
                              dict(base, q='EoRT_act', del_m=label, what='fwd-rev'), scale=mg)
    # --- partition functions
    if all_statmech:
        qc = dict(cond, ignore_q_elec=True)
        try:
            lq = {}
            for st, side in sides.items():
                lq[st] = sum(nu * math.log(_f(RG.call_getter(objs[n], 'get_q', RG.species_kwargs(n, qc))))
                             for n, nu in side)
        except Exception as e:      # q = 0 (monatomic rotor), NotImplementedError (quasi-RRHO q) ...
            lq = None
            ctx.inconc('H4', 'q not positive/finite', exc=repr(e)[:100])
        if lq is not None:
            for rev in (False, True):
                for act in ((False, True) if nts else (False,)):
                    ini = 'products' if rev else 'reactants'
                    fin = 'ts' if act else ('reactants' if rev else 'products')
                    mm = dict(base, q='q', rev=rev, act=act)
                    g = ctx.call('H4', mm, rxn.get_delta_q, rev=rev, act=act, **qc)
                    if g is core.NOVALUE:
                        continue
                    g = _f(g)
                    if not (g > 0 and math.isfinite(g)):
                        ctx.inconc('H4', 'delta q overflow', value=repr(g))
                        continue
                    want = lq[fin] - lq[ini]
                    ctx.close('H4', math.log(g), want, 1e-9, mm, scale=max(1.0, abs(lq[fin]), abs(lq[ini])))
            for st in sides:
                g = ctx.call('H4', dict(base, q='q', form='state'), rxn.get_q_state, state=st, **qc)
                if g is not core.NOVALUE and _f(g) > 0 and math.isfinite(_f(g)):
                    ctx.close('H4', math.log(_f(g)), lq[st], 1e-9, dict(base, q='q', form='state'),
                              scale=max(1.0, abs(lq[st])))
    # --- equilibrium constant
    dG = {}
    for rev in (False, True):
        g = ctx.call('H5', dict(base, what='delta_GoRT'), rxn.get_delta_GoRT, rev=rev, **cond)
        if g is not core.NOVALUE:
            dG[rev] = _f(g)
    if len(dG) == 2 and abs(dG[False]) < 600:
        K = {}
        for rev in (False, True):
            k = ctx.call('H5', dict(base, what='Keq', rev=rev), rxn.get_Keq, rev=rev, **cond)
            if k is not core.NOVALUE:
                K[rev] = _f(k)
                ctx.close('H5', math.log(K[rev]) if K[rev] > 0 else float('nan'), -dG[rev], 1e-9,
                          dict(base, what='Keq=exp(-dG)', rev=rev), scale=max(1.0, abs(dG[rev])))
        if len(K) == 2:
            ctx.close('H5', math.log(K[False]) + math.log(K[True]), 0.0, 1e-9, dict(base, what='KfKr=1'),
                      scale=max(1.0, abs(dG[False])))
        if nts:
            ka = ctx.call('H5', dict(base, what='Keq_act'), rxn.get_Keq, act=True, **cond)
            ga = ctx.call('H5', dict(base, what='Keq_act'), rxn.get_delta_GoRT, act=True, **cond)
            if core.NOVALUE not in (ka, ga) and abs(_f(ga)) < 600:
                ctx.close('H5', math.log(_f(ka)), -_f(ga), 1e-9, dict(base, what='Keq_act'), scale=max(1.0, abs(_f(ga))))
    else:
        ctx.extra['H5_skipped_overflow'] = ctx.extra.get('H5_skipped_overflow', 0) + 1
    # --- H6: a block for one species moves only that species' term
    names = sorted(set(RG.shown(n) for side in sides.values() for n, _ in side))
    tgt = names[(ctx.case_index or 0) % len(names)]
    if spec.get('twin') and (ctx.case_index or 0) % 2:
        tgt = RG.shown(spec['twin'])
    X = 'SoR' if 'SoR' in quantities else quantities[0]
    c_no = {k: v for k, v in cond.items() if k != '%s_kwargs' % tgt}
    c_yes = dict(c_no)
    c_yes['%s_kwargs' % tgt] = {'P': 7.5 * cond.get('P', 1.0)}
    mm = dict(base, q=X)
    d0 = ctx.call('H6', mm, getattr(rxn, 'get_delta_' + X), **c_no)
    d1 = ctx.call('H6', mm, getattr(rxn, 'get_delta_' + X), **c_yes)
    if core.NOVALUE not in (d0, d1):
        try:
            # every object that carries the addressed name moves (twins share a name), nothing else does
            want_move, moved = 0.0, False
            for key in sorted(set(n for n, _ in spec['products'] + spec['reactants'] if RG.shown(n) == tgt)):
                x0 = _f(RG.call_getter(objs[key], 'get_' + X, RG.species_kwargs(key, c_no)))
                x1 = _f(RG.call_getter(objs[key], 'get_' + X, RG.species_kwargs(key, c_yes)))
                nu = sum(v for n, v in spec['products'] if n == key) - sum(v for n, v in spec['reactants'] if n == key)
                want_move += nu * (x1 - x0)
                moved = moved or x1 != x0
            ctx.close('H6', _f(d1) - _f(d0), want_move, 1e-9, mm, scale=max(1.0, abs(_f(d0))),
                      target=tgt, moved=want_move)
            if moved:
                ctx.nontrivial()
        except Exception as e:
            ctx.inconc('H6', 'species getter raised', exc=repr(e)[:200])
    # --- H7: caller's dict untouched
    ctx.check('H7', cond == snapshot, dict(base, what='conditions_mutated'), before=snapshot, after=cond)


def rng_choice_state(ctx):
    return ['ts', 'transition state', 'transition_state', 'TS'][(ctx.case_index or 0) % 4]

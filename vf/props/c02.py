"""C02  NASA-7, NASA-9 and Shomate species are internally consistent polynomials.

One case = one polynomial species (random or directed coefficient set, phase 'S'/None so
that no pressure adjustment model is attached -- that belongs to C13) + explicit lists of
temperatures (interior, on / 1 ulp next to / 1e-9 next to every break, on T_low / T_high,
Python ints, lists and ndarrays of length 1..50 that straddle the breaks, sub-intervals
inside one segment and -- NASA-9 only -- temperatures below, above and in a gap between
the segments).  The real getters are driven and decided by

E1  every getter (object methods and the module level get_nasa_*/get_nasa9_*/get_shomate_*
    helpers) equals the independent reference basis (vf/ref/poly.py) of the *selected*
    segment (upper segment at the NASA-7 break; a segment whose bounds contain T for NASA-9)
E2  T2 H/RT(T2) - T1 H/RT(T1) = int Cp/R dT and S/R(T2) - S/R(T1) = int Cp/(R T) dT on
    sub-intervals inside one segment, Gauss-Legendre over the *real* scalar Cp getter
E3  G/RT = H/RT - S/R (scalar and array, methods and get_shomate_GoRT)
E4  NASA-9: T outside every segment (below / above the global limits at 1 ulp, relative 1e-12,
    1e-9, 1e-6, absolute 1e-5 K and far; in a gap at 1 ulp / 1e-12 from either edge and far;
    as scalar and as one element of an array) is refused (raises); T on any segment bound
    never raises
E5  array evaluation (list / ndarray, float / int elements, every length 1..50) equals the
    per-element scalar evaluation and has one value per element -- also for *histories*: one
    container object evaluated, changed IN PLACE (shift T += dT, reverse, one element moved
    across a break, slice assignment), evaluated again; two live containers evaluated
    alternately with scalars in between; the getter must leave the caller's container untouched
Two further strata re-use these oracles: (a) *live edits* -- coefficient arrays (a_low, a_high, Shomate a,
SingleNasa9 a, the array get_a returns) edited in place or re-assigned, T_mid / T_low / T_high / units
re-assigned, NASA-9 bounds moved through the nested segment objects, the segment list edited in place
(replace, append) or re-assigned; after every edit E1/E3/E5/E4 (and one E2) are evaluated against the
reference of the species as the object now reports itself through its public attributes; (b)
*non-default conditions* -- the same coefficient set built as a gas (pMuTT attaches its pressure
adjustment) and evaluated at a pressure P, optionally with a coverage model and a coverage x, the
conditions handed identically to every getter: only the relations E3, E5, E2 are asserted there (the
size of the pressure / coverage term itself is C13's).
INV online invariants at sys.monitoring return hooks: Nasa.get_a returns a_high iff
    T >= T_mid; Nasa9._get_nasa returns a SingleNasa9 whose bounds contain T.
"""
import json
import math
import random

from vf import core
from vf.gen import species as S
from vf.ref import poly, quad

ID = 'C02'
N = {'quick': 4200, 'thorough': 150000}
NT_RULE = ('case = one NASA-7 / NASA-9 (1-4 segments, optionally with a gap) / Shomate (every unit '
           'accepted by constants.R) species with arbitrary or realistic coefficients drawn per case '
           'index from a seeded PRNG after a list of directed cases, plus explicit scalar (float, int), '
           'array (list, ndarray, length 1-50) temperatures, in-place edit histories of one re-used '
           'temperature container, edit histories of the live species, gas-phase / coverage conditions, '
           'sub-intervals and graded out-of-range temperatures; non-trivial = >=1 temperature on or adjacent (1 ulp / 1e-9 relative) to a '
           'break, or an array of length >=2; distinct = distinct canonical JSON of the case')
REQUIRED_ORACLES = ['E1', 'E2', 'E3', 'E4', 'E5']
UNITS_DOC = ['J/mol/K', 'kJ/mol/K', 'cal/mol/K', 'kcal/mol/K', 'eV/K', 'Eh/K', 'Ha/K', 'L atm/mol/K',
             'cm3 atm/mol/K', 'm3 Pa/mol/K', 'L kPa/mol/K', 'L bar/mol/K', 'cm3 kPa/mol/K',
             'm3 bar/mol/K']
EDIT_OPS_REQ = {'Nasa': ['coef_inplace', 'coef_scale', 'get_a_inplace', 'coef_assign', 'T_mid', 'T_bounds'],
                'Nasa9': ['seg_bounds', 'seg_bound_one', 'seg_coef_inplace', 'seg_coef_assign', 'seg_replace',
                          'seg_append', 'nasas_assign'],
                'Shomate': ['coef_inplace', 'coef_scale', 'coef_assign', 'units', 'T_bounds']}
REQUIRED_CLASSES = (['Nasa', 'Nasa9', 'Shomate', 'style:arbitrary', 'style:realistic', 'style:unit',
                     'T:on_T_mid', 'T:T_mid-1ulp', 'T:T_mid+1ulp', 'T:T_mid*(1-1e-9)', 'T:T_mid*(1+1e-9)',
                     'T:T_low', 'T:T_high', 'T:interior',
                     'nasa9:nseg=1', 'nasa9:nseg=2', 'nasa9:nseg=3', 'nasa9:nseg=4', 'nasa9:gap',
                     'T:on_shared_bound', 'T:bound-1ulp', 'T:bound+1ulp', 'T:on_gap_edge',
                     'out:below', 'out:above', 'out:gap', 'out:in_array',
                     'hist:Nasa', 'hist:Nasa9', 'hist:Shomate', 'hist:list', 'hist:ndarray', 'hist:shift',
                     'hist:reverse', 'hist:move', 'hist:assign', 'hist:element_changed_segment', 'hist:alternate',
                     'tkind:float', 'tkind:int', 'tkind:list', 'tkind:ndarray', 'elem:int', 'elem:float',
                     'int:on_break', 'array:straddles_break', 'array:has_break',
                     'ival:whole_segment', 'ival:short', 'ival:to_break', 'ival:from_break']
                    + ['%s:%s:%s' % (p, w, d) for p in ('out', 'out_arr') for w in ('below', 'above')
                       for d in ('1ulp', 'rel1e-12', 'rel1e-9', 'rel1e-6', 'abs1e-5', 'far')]
                    + ['out:gap:1ulp', 'out_arr:gap:1ulp']
                    + ['edit:%s:%s' % (k, o) for k in ('Nasa', 'Nasa9', 'Shomate') for o in EDIT_OPS_REQ[k]]
                    + ['cond:%s:%s' % (t, k) for t in ('gas_P', 'gas_P+cov') for k in ('Nasa', 'Nasa9', 'Shomate')]
                    + ['dtype:%s:%s' % (d, k) for d in ('int16', 'uint16', 'int32', 'uint32', 'int64', 'float32')
                       for k in ('Nasa', 'Nasa9', 'Shomate')]
                    + ['units:%s' % u for u in UNITS_DOC]
                    + ['alen:%d' % n for n in range(1, 51)])
# branches (get_a:low/high/T==T_mid, _get_nasa:T==T_low/T==T_high/interior) are recorded by the probes as
# evidence; they are not *required* because the probed functions are private (a refactoring that removes
# them must not make the run inconclusive) -- the equivalent input classes above are required instead
REQUIRED_BRANCHES = []
REQUIRED_PROBES = ['Nasa.get_a', 'Nasa9._get_nasa', 'Shomate._check_T',
                   'get_nasa_CpoR', 'get_nasa_HoRT', 'get_nasa_SoR',
                   'get_nasa9_CpoR', 'get_nasa9_HoRT', 'get_nasa9_SoR',
                   'get_shomate_CpoR', 'get_shomate_HoRT', 'get_shomate_SoR', 'get_shomate_GoRT']
ASSUMPTIONS = [
    "the comparison with the reference basis (E1) uses species built with phase 'S' or None and no "
    "misc_models; under non-default conditions (gas phase + P, coverage model + x) only the relations G=H-TS, "
    "array==scalar and the integral forms at constant conditions are asserted -- the value of the pressure / "
    "coverage term is C13's; S_elements is left at its default",
    "live edits: the reference after an edit is built from what the object's public attributes report "
    "(a_low, a_high, a, T_low, T_mid, T_high, units, nasas[i].T_low/T_high/a), so an implementation that "
    "hands out copies is not accused; a temperature that the edited NASA-9 species no longer contains must "
    "be refused; overlapping segments are never produced",
    "Shomate unit factor: the reference divides by pmutt.constants.R(units) (the table itself is C12); the "
    "polynomial basis, the t = T/1000 scaling and the kilo factor of H are independent (vf/ref/poly.py)",
    "a unit string that constants.R rejects is outside the quantifier ('any supported fitting unit'); "
    "such cases are counted (class units_unsupported:<u>) and skipped",
    "NASA-9, T exactly on a bound shared by two contiguous segments: either segment is accepted (both "
    "contain T); NASA-7 at T_mid: only the upper segment",
    "a return value of size 1 where a scalar is expected (or a scalar for a length-1 array) is shape only "
    "and is normalised, not a violation; a wrong number of values is a violation",
    "module level helpers are called as documented: get_nasa_*/get_nasa9_* with a float, get_shomate_* "
    "with a float ndarray; SingleNasa9 getters with scalars only (array T on SingleNasa9 is telemetry)",
    "refusal = any exception and no value; in-range exceptions are violations of the clause evaluated",
    "E2 tolerance 1e-9*max(1,|integral|) + 2e-13*(sum of reference term magnitudes of the end-point "
    "values) -- the second part is the floating point cancellation of the two end-point terms",
    "warnings raised for in-range temperatures are telemetry (extra.inrange_warnings), not verdicts",
    "a getter that changes the contents of the caller's temperature container is counted as an E5 violation "
    "(what=input_modified): the next evaluation of that container would no longer be the requested one",
    "dimensional getters (get_Cp/H/S/G with units) and the S_elements option are not driven here (C04)",
    "temperature dtypes int16/uint16/int32/uint32/int64/float32 (numpy scalars and ndarray elements) must give "
    "the double precision evaluation of the same numeric value (E1/E5 tolerances); exception: Shomate with "
    "float32 T computes t = T/1000 and its powers in single precision, so there only 1e-4 (observed <= 5e-7) "
    "against the double evaluation and exact array == same-dtype scalar agreement are demanded",
]

TOL_E1 = 1e-12
TOL_E3 = 1e-12
TOL_E5 = 1e-13
TOL_E2 = 1e-9
TOL_F32 = 1e-4        # Shomate with float32 T only (single precision arithmetic inside; observed <= 5e-7)
CANCEL = 2e-13
QS = ('CpoR', 'HoRT', 'SoR', 'GoRT')


# ---------------------------------------------------------------- small helpers
def _up(x):
    return math.nextafter(x, math.inf)


def _dn(x):
    return math.nextafter(x, -math.inf)


def _segments(sp):
    """closed temperature intervals of the species, ascending: [(lo, hi), ...]"""
    t = sp['type']
    if t == 'Nasa':
        return [(sp['T_low'], sp['T_mid']), (sp['T_mid'], sp['T_high'])]
    if t == 'Nasa9':
        return [(n['T_low'], n['T_high']) for n in sp['nasas']]
    return [(sp['T_low'], sp['T_high'])]


def _breaks(sp):
    """list of (T, class) of in-range boundary / adjacent temperatures"""
    t = sp['type']
    out = []
    if t == 'Nasa':
        lo, mid, hi = sp['T_low'], sp['T_mid'], sp['T_high']
        out += [(lo, 'T:T_low'), (hi, 'T:T_high'), (mid, 'T:on_T_mid'), (_dn(mid), 'T:T_mid-1ulp'),
                (_up(mid), 'T:T_mid+1ulp'), (mid * (1 - 1e-9), 'T:T_mid*(1-1e-9)'),
                (mid * (1 + 1e-9), 'T:T_mid*(1+1e-9)')]
    elif t == 'Shomate':
        out += [(sp['T_low'], 'T:T_low'), (sp['T_high'], 'T:T_high')]
    else:
        segs = _segments(sp)
        out += [(segs[0][0], 'T:T_low'), (segs[-1][1], 'T:T_high')]
        for (l0, h0), (l1, h1) in zip(segs[:-1], segs[1:]):
            if h0 == l1:
                out += [(h0, 'T:on_shared_bound'), (_dn(h0), 'T:bound-1ulp'), (_up(h0), 'T:bound+1ulp'),
                        (h0 * (1 - 1e-9), 'T:bound*(1-1e-9)'), (h0 * (1 + 1e-9), 'T:bound*(1+1e-9)')]
            else:
                out += [(h0, 'T:on_gap_edge'), (l1, 'T:on_gap_edge'), (_dn(h0), 'T:bound-1ulp'),
                        (_up(l1), 'T:bound+1ulp')]
    return out


NEAR = ('1ulp', 'rel1e-12', 'rel1e-9', 'rel1e-6', 'abs1e-5')


def _outside(sp, rng):
    """NASA-9: list of [T, where, dist] that lie in no segment.  Just outside the global limits
    the distance is graded (1 ulp, relative 1e-12 / 1e-9 / 1e-6, absolute 1e-5 K, far) so that a
    'round-off tolerant' containment test is seen; in a gap: 1 ulp / 1e-12 from either edge, far."""
    segs = _segments(sp)
    lo, hi = segs[0][0], segs[-1][1]
    out = [[_dn(lo), 'below', '1ulp'], [lo * (1 - 1e-12), 'below', 'rel1e-12'], [lo * (1 - 1e-9), 'below', 'rel1e-9'],
           [lo * (1 - 1e-6), 'below', 'rel1e-6'], [lo - 1e-5, 'below', 'abs1e-5'],
           [round(lo - rng.uniform(0.01, 40.0), 3), 'below', 'far'],
           [_up(hi), 'above', '1ulp'], [hi * (1 + 1e-12), 'above', 'rel1e-12'], [hi * (1 + 1e-9), 'above', 'rel1e-9'],
           [hi * (1 + 1e-6), 'above', 'rel1e-6'], [hi + 1e-5, 'above', 'abs1e-5'],
           [round(hi + rng.uniform(0.01, 4000.0), 3), 'above', 'far']]
    for (l0, h0), (l1, h1) in zip(segs[:-1], segs[1:]):
        if h0 < l1:
            out += [[_up(h0), 'gap', '1ulp'], [_dn(l1), 'gap', '1ulp'],
                    [h0 + (l1 - h0) * rng.uniform(0.05, 0.95), 'gap', 'far']]
            for T in (h0 * (1 + 1e-12), l1 * (1 - 1e-12)):
                if h0 < T < l1:
                    out.append([T, 'gap', 'rel1e-12'])
    return out


def _in_range(sp, T):
    return any(lo <= T <= hi for lo, hi in _segments(sp))


def _seg_index(sp, T):
    """index of the segment the statement selects (upper one on a NASA-7 / shared bound)"""
    k = None
    for i, (lo, hi) in enumerate(_segments(sp)):
        if lo <= T <= hi:
            k = i
    return k


def _make_history(rng, sp, kind=None, n=None, ops=None):
    """one array object that is evaluated, changed IN PLACE, evaluated again ...
    {'kind', 'T0': [...], 'steps': [['shift', dT] | ['reverse'] | ['move', j, T] | ['assign', [...]]]}
    every intermediate content stays inside the segments (checked here with the same float
    arithmetic the driver uses)."""
    kind = kind or rng.choice(['list', 'ndarray'])
    n = n or rng.randint(2, 9)
    segs = _segments(sp)
    glo, ghi = segs[0][0], segs[-1][1]
    cur = [_rand_T(rng, sp) for _ in range(n)]
    T0 = list(cur)
    steps = []
    if ops is None:
        ops = rng.sample(['shift', 'reverse', 'move', 'assign'], rng.randint(2, 4))
        if 'move' not in ops and 'shift' not in ops:
            ops.append('move')
    for op in ops:
        if op == 'shift':
            new = None
            for _ in range(20):
                dT = round(rng.uniform(glo - min(cur), ghi - max(cur)), 3)
                cand = [x + dT for x in cur]
                if dT != 0.0 and all(_in_range(sp, x) for x in cand):
                    new = cand
                    break
            if new is None:
                continue
            steps.append(['shift', dT])
        elif op == 'reverse':
            new = cur[::-1]
            steps.append(['reverse'])
        elif op == 'move':
            j = rng.randrange(n)
            k = _seg_index(sp, cur[j])
            others = [i for i in range(len(segs)) if i != k] or [k]
            lo, hi = segs[rng.choice(others)]
            v = rng.choice([_rand_in(rng, lo, hi), _rand_in(rng, lo, hi), lo, hi])
            new = list(cur)
            new[j] = v
            steps.append(['move', j, v])
        else:
            new = [_rand_T(rng, sp) for _ in range(n)]
            steps.append(['assign', new])
        cur = list(new)
    return {'kind': kind, 'T0': T0, 'steps': steps}


DTYPES = ('int16', 'uint16', 'int32', 'uint32', 'int64', 'float32')


def _f32(v):
    """the double that equals v rounded to single precision"""
    import struct
    return struct.unpack('f', struct.pack('f', v))[0]


def _make_dtype(rng, sp, dt):
    """{'dtype', 'T': [...], 'ival': [T1, T2]}: in-range temperatures representable in dt (integers
    for the integer types -- all <= 6000 < 32767 --, float32-exact values one kelvin inside a segment
    for float32) and, for the integer types, two integer end points strictly inside one segment"""
    segs = _segments(sp)
    n = rng.randint(3, 7)
    if dt == 'float32':
        T = []
        for _ in range(n):
            lo, hi = rng.choice(segs)
            T.append(_f32(round(rng.uniform(lo + 1.0, hi - 1.0), 2)))
        return {'dtype': dt, 'T': T}
    T = [_rand_int_T(rng, sp) for _ in range(n)]
    ib = [int(b) for b, _ in _breaks(sp) if float(b).is_integer()]
    for b in ib[:2]:
        T[rng.randrange(n)] = b
    T[rng.randrange(n)] = math.floor(segs[-1][1])             # largest powers
    lo, hi = rng.choice(segs)
    T1 = rng.randint(math.ceil(lo) + 1, math.floor(hi) - 2)
    T2 = min(math.floor(hi) - 1, T1 + rng.randint(1, 150))
    ent = {'dtype': dt, 'T': T}
    if T2 > T1:
        ent['ival'] = [T1, T2]
    return ent


def _make_alternation(rng, sp):
    """two different array objects of equal length (same first and last element, different
    interior) evaluated alternately with scalars in between"""
    n = rng.randint(3, 10)
    A = [_rand_T(rng, sp) for _ in range(n)]
    B = [A[0]] + [_rand_T(rng, sp) for _ in range(n - 2)] + [A[-1]]
    return {'kind': rng.choice(['list', 'ndarray']), 'A': A, 'B': B,
            'scalars': [_rand_T(rng, sp), _rand_T(rng, sp)]}


def _rand_in(rng, lo, hi, nd=3):
    v = round(rng.uniform(lo, hi), nd)
    return min(max(v, lo), hi)


def _rand_T(rng, sp):
    lo, hi = rng.choice(_segments(sp))
    return _rand_in(rng, lo, hi)


def _rand_int_T(rng, sp):
    lo, hi = rng.choice(_segments(sp))
    return rng.randint(math.ceil(lo), math.floor(hi))


def _make_array(rng, sp, n, kind=None, elem=None):
    kind = kind or rng.choice(['list', 'ndarray'])
    elem = elem or rng.choices(['float', 'int'], [4, 1])[0]
    if elem == 'int':
        T = [_rand_int_T(rng, sp) for _ in range(n)]
        ib = [int(b) for b, _ in _breaks(sp) if float(b).is_integer()]
        for b in ib[:n]:
            T[rng.randrange(n)] = b
    else:
        T = [_rand_T(rng, sp) for _ in range(n)]
        bs = [b for b, _ in _breaks(sp)]
        k = rng.randint(0, min(n, 4))
        for b in rng.sample(bs, min(k, len(bs))):
            T[rng.randrange(n)] = b
    return {'kind': kind, 'elem': elem, 'T': T}


def _intervals(rng, sp, n_random):
    """sub-intervals [T1, T2, tag] that lie inside one segment *as the code under test must
    select it*: NASA-7 low segment excludes T_mid; NASA-9 shared bounds are excluded (either
    neighbour may be selected there)."""
    t = sp['type']
    segs = _segments(sp)
    usable = []
    for i, (lo, hi) in enumerate(segs):
        a, b = lo, hi
        if t == 'Nasa' and i == 0:
            b = _dn(hi)
        if t == 'Nasa9':
            if i > 0 and segs[i - 1][1] == lo:
                a = _up(lo)
            if i + 1 < len(segs) and segs[i + 1][0] == hi:
                b = _dn(hi)
        usable.append((a, b))
    out = []
    k = rng.randrange(len(usable))
    out.append([usable[k][0], usable[k][1], 'ival:whole_segment'])
    if t != 'Shomate' and len(usable) > 1:
        k = rng.randrange(len(usable) - 1)
        a, b = usable[k]
        out.append([_rand_in(rng, a, b), b, 'ival:to_break'])
        a, b = usable[k + 1]
        out.append([a, _rand_in(rng, a, b), 'ival:from_break'])
    for _ in range(n_random):
        a, b = rng.choice(usable)
        w = math.exp(rng.uniform(math.log(1e-3), math.log(b - a)))
        T1 = _rand_in(rng, a, b - w, 4)
        T2 = min(b, T1 + float('%.6g' % w))
        if T2 > T1:
            out.append([T1, T2, 'ival:short' if T2 - T1 < 1.0 else 'ival:random'])
    return out


def _unit_coeffs(rng, n, powers, T_scale=1000.0):
    """one visible coefficient, all others exactly zero"""
    a = [0.0] * n
    k = rng.randrange(n)
    if k < len(powers):
        a[k] = float('%.6g' % (rng.choice([-1, 1]) * rng.uniform(0.5, 3) / T_scale ** powers[k]))
    else:
        a[k] = float('%.6g' % rng.uniform(-300, 300))
    return a


def _species(rng, kind, style, units=None, nseg=None, gap=None):
    phase = rng.choice(['S', None])
    st = None if style == 'unit' else style
    if kind == 'Nasa':
        sp = S.gen_nasa(rng, name='n7', phase='S', style=st)
        if style == 'unit':
            sp['a_low'] = _unit_coeffs(rng, 7, [0, 1, 2, 3, 4])
            sp['a_high'] = _unit_coeffs(rng, 7, [0, 1, 2, 3, 4])
    elif kind == 'Nasa9':
        sp = S.gen_nasa9(rng, name='n9', phase='S', n_seg=nseg, style=st)
        if style == 'unit':
            for n in sp['nasas']:
                n['a'] = _unit_coeffs(rng, 9, [-2, -1, 0, 1, 2, 3, 4])
        ns = sp['nasas']
        if gap is None:
            gap = len(ns) > 1 and rng.random() < 0.35
        if gap and len(ns) > 1:
            i = rng.randrange(len(ns) - 1)
            b = ns[i]['T_high']
            how = rng.choice(['tiny', 'wide_low', 'wide_high', 'both'])
            if how == 'tiny':
                ns[i]['T_high'] = b * (1 - 1e-9)
            if how in ('wide_low', 'both'):
                ns[i]['T_high'] = round(b - rng.uniform(0.01, 5.0), 3)
            if how in ('wide_high', 'both'):
                ns[i + 1]['T_low'] = round(b + rng.uniform(0.01, 5.0), 3)
    else:
        sp = S.gen_shomate(rng, name='sh', phase='S', units=units or rng.choice(S.SHOMATE_UNITS), style=st)
        if style == 'unit':
            a = [0.0] * 8
            k = rng.randrange(7)
            a[k] = float('%.6g' % (rng.choice([-1, 1]) * rng.uniform(1, 50)))
            sp['a'] = a
        else:
            # coefficients are in `units`: scale the J/mol/K sized numbers so that Cp/R stays O(1-10)
            f = _R_SI.get(sp['units'], 8.3144598) / 8.3144598
            sp['a'] = [float('%.10g' % (v * f)) for v in sp['a']]
    sp['phase'] = phase
    sp.pop('elements', None)
    return sp


# magnitudes only (to keep generated Shomate coefficients O(Cp/R ~ 1-10) in every unit); never
# used by an oracle
_R_SI = {'J/mol/K': 8.3144598, 'kJ/mol/K': 8.3144598e-3, 'cal/mol/K': 1.9872036, 'kcal/mol/K': 1.9872036e-3,
         'eV/K': 8.6173303e-5, 'Eh/K': 3.1668105e-6, 'Ha/K': 3.1668105e-6, 'L atm/mol/K': 0.082057338,
         'cm3 atm/mol/K': 82.057338, 'm3 Pa/mol/K': 8.3144598, 'L kPa/mol/K': 8.3144598,
         'L bar/mol/K': 8.3144598e-2, 'L mbar/mol/K': 83.144598, 'cm3 kPa/mol/K': 8.3144598e3,
         'm3 bar/mol/K': 8.3144598e-5, 'inch3 psi/mol/K': 73.59}


def _new_coeffs(rng, kind):
    if kind == 'Nasa':
        return S.gen_nasa7_coeffs(rng, style='arbitrary')
    if kind == 'Nasa9':
        return S.gen_nasa9_coeffs(rng, style='arbitrary')
    return [float('%.8g' % v) for v in ([rng.uniform(-30, 30)] + [rng.uniform(-20, 20) for _ in range(3)]
                                        + [rng.uniform(-2, 2)] + [rng.uniform(-300, 300) for _ in range(3)])]


def _shadow_apply(cur, op):
    """apply an edit operation to the generator's shadow copy of the species spec"""
    name = op[0]
    if name in ('coef_inplace', 'coef_scale'):
        a = cur[op[1]]
        a[op[2]] = op[3] if name == 'coef_inplace' else a[op[2]] * op[3]
    elif name == 'get_a_inplace':
        a = cur['a_high'] if op[1] >= cur['T_mid'] else cur['a_low']
        a[op[2]] = op[3]
    elif name == 'coef_assign':
        cur[op[1]] = list(op[2])
    elif name == 'attr':
        cur[op[1]] = op[2]
    elif name == 'seg_bounds':
        cur['nasas'][op[1]]['T_high'] = op[2]
        cur['nasas'][op[1] + 1]['T_low'] = op[2]
    elif name == 'seg_bound_one':
        cur['nasas'][op[1]][op[2]] = op[3]
    elif name == 'seg_coef_inplace':
        cur['nasas'][op[1]]['a'][op[2]] = op[3]
    elif name == 'seg_coef_assign':
        cur['nasas'][op[1]]['a'] = list(op[2])
    elif name == 'seg_replace':
        cur['nasas'][op[1]] = json.loads(json.dumps(op[2]))
    elif name == 'seg_append':
        cur['nasas'].append(json.loads(json.dumps(op[1])))
    elif name == 'nasas_assign':
        cur['nasas'] = json.loads(json.dumps(op[1]))


EDIT_OPS = {'Nasa': ['coef_inplace', 'coef_scale', 'get_a_inplace', 'coef_assign', 'T_mid', 'T_bounds'],
            'Nasa9': ['seg_bounds', 'seg_bound_one', 'seg_coef_inplace', 'seg_coef_assign', 'seg_replace',
                      'seg_append', 'nasas_assign'],
            'Shomate': ['coef_inplace', 'coef_scale', 'coef_assign', 'units', 'T_bounds']}


def _make_edits(rng, sp, names=None):
    """history of edits of the LIVE species (in-place element edits of coefficient arrays and of the
    array get_a returns, re-assignments, bounds moved through the nested segment objects, the segment
    list edited in place), each followed by temperatures drawn for the edited species:
    [{'op': [...], 'T': [...], 'arr': {...}, 'out': [...]}, ...] + a final interval"""
    kind = sp['type']
    cur = json.loads(json.dumps(sp))
    names = names or rng.sample(EDIT_OPS[kind], 2)
    out = []
    for name in names:
        strip = []
        op = None
        if kind == 'Nasa':
            which = rng.choice(['a_low', 'a_high'])
            k = rng.randrange(7)
            if name == 'coef_inplace':
                op = ['coef_inplace', which, k, _new_coeffs(rng, kind)[k]]
            elif name == 'coef_scale':
                op = ['coef_scale', which, k, round(rng.uniform(0.5, 1.5), 3)]
            elif name == 'get_a_inplace':
                op = ['get_a_inplace', _rand_T(rng, cur), k, _new_coeffs(rng, kind)[k]]
            elif name == 'coef_assign':
                op = ['coef_assign', which, _new_coeffs(rng, kind)]
            elif name == 'T_mid':
                new = _rand_in(rng, cur['T_low'] + 5.0, cur['T_high'] - 5.0, 2)
                strip = [_rand_in(rng, min(new, cur['T_mid']), max(new, cur['T_mid'])), cur['T_mid']]
                op = ['attr', 'T_mid', new]
            else:
                if rng.random() < 0.5:
                    op = ['attr', 'T_low', _rand_in(rng, 50.0, cur['T_mid'] - 5.0, 2)]
                else:
                    op = ['attr', 'T_high', _rand_in(rng, cur['T_mid'] + 5.0, 6000.0, 2)]
        elif kind == 'Shomate':
            k = rng.randrange(7)
            if name == 'coef_inplace':
                op = ['coef_inplace', 'a', k, _new_coeffs(rng, kind)[k]]
            elif name == 'coef_scale':
                op = ['coef_scale', 'a', k, round(rng.uniform(0.5, 1.5), 3)]
            elif name == 'coef_assign':
                op = ['coef_assign', 'a', _new_coeffs(rng, kind)]
            elif name == 'units':
                op = ['attr', 'units', rng.choice([u for u in UNITS_DOC if u != cur['units']])]
            else:
                mid = 0.5 * (cur['T_low'] + cur['T_high'])
                if rng.random() < 0.5:
                    op = ['attr', 'T_low', _rand_in(rng, 50.0, mid - 5.0, 2)]
                else:
                    op = ['attr', 'T_high', _rand_in(rng, mid + 5.0, 6000.0, 2)]
        else:
            ns = cur['nasas']
            i = rng.randrange(len(ns))
            k = rng.randrange(9)
            via = rng.choice(['nasas', 'getitem'])
            if name == 'seg_bounds' and len(ns) > 1:
                i = rng.randrange(len(ns) - 1)
                lo, hi = ns[i]['T_low'] + 3.0, ns[i + 1]['T_high'] - 3.0
                old = ns[i]['T_high']
                new = _rand_in(rng, lo, hi, 2)
                strip = [_rand_in(rng, min(new, old), max(new, old)), old]
                op = ['seg_bounds', i, new, via]
            elif name in ('seg_bounds', 'seg_bound_one'):
                # shrink the top of the range (or open a gap): what was inside is now refused
                old = ns[i]['T_high']
                new = _rand_in(rng, ns[i]['T_low'] + 3.0, old - 0.5, 2)
                strip = [_rand_in(rng, new, old), old]
                op = ['seg_bound_one', i, 'T_high', new, via]
            elif name == 'seg_coef_inplace':
                op = ['seg_coef_inplace', i, k, _new_coeffs(rng, kind)[k], via]
            elif name == 'seg_coef_assign':
                op = ['seg_coef_assign', i, _new_coeffs(rng, kind), via]
            elif name == 'seg_replace':
                op = ['seg_replace', i, {'T_low': ns[i]['T_low'], 'T_high': ns[i]['T_high'],
                                          'a': _new_coeffs(rng, kind)}]
            elif name == 'seg_append' and ns[-1]['T_high'] <= 5900.0:
                top = ns[-1]['T_high']
                op = ['seg_append', {'T_low': top, 'T_high': _rand_in(rng, top + 20.0, 6000.0, 2),
                                     'a': _new_coeffs(rng, kind)}]
            else:
                segs = json.loads(json.dumps(ns))
                for sg in segs:
                    sg['a'] = _new_coeffs(rng, kind)
                if len(segs) > 1:
                    j = rng.randrange(len(segs) - 1)
                    b = _rand_in(rng, segs[j]['T_low'] + 3.0, segs[j + 1]['T_high'] - 3.0, 2)
                    strip = [_rand_in(rng, min(b, segs[j]['T_high']), max(b, segs[j]['T_high']))]
                    segs[j]['T_high'] = b
                    segs[j + 1]['T_low'] = b
                op = ['nasas_assign', segs]
        _shadow_apply(cur, op)
        Ts = [_rand_T(rng, cur), _rand_T(rng, cur)] + [b for b, _ in rng.sample(_breaks(cur), min(3, len(_breaks(cur))))]
        Ts += strip                                  # may be outside the edited species: then refused (NASA-9)
        ent = {'op': op, 'T': Ts, 'arr': _make_array(rng, cur, rng.randint(2, 8), elem='float')}
        if kind == 'Nasa9':
            ent['out'] = [o for o in _outside(cur, rng) if o[2] in ('1ulp', 'far')]
        out.append(ent)
    iv = rng.choice(_intervals(rng, cur, 1))
    return {'steps': out, 'ival': [iv[0], iv[1]]}


def _make_cond(rng, sp, cov=None):
    """non-default conditions: the species built as a gas (pressure adjustment attached by pMuTT itself)
    and evaluated at pressures P, optionally with a coverage model attached and a coverage x; the
    conditions are handed identically to all getters"""
    cov = rng.random() < 0.4 if cov is None else cov
    iv = rng.choice(_intervals(rng, sp, 1)[1:] or _intervals(rng, sp, 1))
    if iv[1] - iv[0] > 400.0:
        iv = [iv[0], iv[0] + round(rng.uniform(1.0, 400.0), 2)]
    c = {'P': [S.logu(rng, 1e-3, 1e3, 4), rng.choice([1.0, 25, S.logu(rng, 1e-3, 1e3, 4)])],
         'T': [_rand_T(rng, sp)] + [b for b, _ in rng.sample(_breaks(sp), min(2, len(_breaks(sp))))],
         'arr': _make_array(rng, sp, rng.randint(2, 6), elem='float'), 'ival': [iv[0], iv[1]], 'cov': None}
    if cov:
        bps = sorted({0.0, round(rng.uniform(0.1, 0.5), 2), round(rng.uniform(0.5, 0.9), 2)})
        c['cov'] = {'intervals': bps, 'slopes': [round(rng.uniform(-3, 3), 2) for _ in bps],
                    'x': round(rng.uniform(0.05, 1.0), 3)}
    return c


def _case(rng, sp, style, n_T=3, arrays=None, n_ivals=2, n_int=2, hist=None, dtypes=None, edits=None, cov=None):
    Ts = [_rand_T(rng, sp) for _ in range(n_T)]
    for lo, hi in _segments(sp):                     # at least one interior point per segment
        Ts.append(_rand_in(rng, lo, hi))
    Ts += [b for b, _ in _breaks(sp)]
    Ti = [_rand_int_T(rng, sp) for _ in range(n_int)]
    Ti += [int(b) for b, _ in _breaks(sp) if float(b).is_integer()]
    if arrays is None:
        arrays = [_make_array(rng, sp, rng.randint(1, 50)) for _ in range(2)]
        arrays.append(_make_array(rng, sp, rng.choice([1, 1, 2, 3, 50, rng.randint(1, 50)])))
    case = {'sp': sp, 'style': style, 'Ts': Ts, 'Ti': Ti, 'arrays': arrays,
            'ivals': _intervals(rng, sp, n_ivals)}
    if sp['type'] == 'Nasa9':
        case['out'] = _outside(sp, rng)
        # arrays that contain one refused temperature: one per entry of `out`
        oa = []
        picks = list(case['out'])
        for T, where, dist in picks:
            arr = _make_array(rng, sp, rng.randint(1, 8), elem='float')
            arr['T'][rng.randrange(len(arr['T']))] = T
            arr['where'], arr['dist'] = where, dist
            oa.append(arr)
        case['out_arrays'] = oa
    case['hist'] = hist if hist is not None else [_make_history(rng, sp) for _ in range(rng.randint(1, 2))]
    case['alt'] = _make_alternation(rng, sp)
    case['dt'] = [_make_dtype(rng, sp, d) for d in (dtypes or rng.sample(DTYPES, 2))]
    case['edits'] = _make_edits(rng, sp, edits)
    case['cond'] = _make_cond(rng, sp, cov)
    return case


# ---------------------------------------------------------------- generator
def directed(tier):
    rng = random.Random('C02-directed')
    D = []
    # NASA-7 with integral bounds: int T exactly on the break, arrays of every length
    n7 = {'type': 'Nasa', 'name': 'n7', 'T_low': 200.0, 'T_mid': 1000.0, 'T_high': 3500.0,
          'a_low': S.gen_nasa7_coeffs(rng, style='arbitrary'), 'a_high': S.gen_nasa7_coeffs(rng, style='arbitrary'),
          'phase': 'S'}
    n9 = {'type': 'Nasa9', 'name': 'n9', 'phase': 'S',
          'nasas': [{'T_low': 200.0, 'T_high': 1000.0, 'a': S.gen_nasa9_coeffs(rng, style='arbitrary')},
                    {'T_low': 1000.0, 'T_high': 6000.0, 'a': S.gen_nasa9_coeffs(rng, style='arbitrary')}]}
    sh = {'type': 'Shomate', 'name': 'sh', 'T_low': 298.0, 'T_high': 1500.0, 'units': 'J/mol/K', 'phase': 'S',
          'a': [30.092, 6.832514, 6.793435, -2.53448, 0.082139, -250.881, 223.3967, -241.8264]}
    # pinned witnesses of the pre-findings: Nasa9.get_CpoR(T=500) (int) and get_CpoR(T=[500.]) (length 1)
    w = _case(rng, dict(n9), 'arbitrary', arrays=[{'kind': 'list', 'elem': 'float', 'T': [500.0]},
                                                  {'kind': 'ndarray', 'elem': 'float', 'T': [500.0]},
                                                  {'kind': 'ndarray', 'elem': 'float', 'T': [500.0, 1000.0, 1500.0]},
                                                  {'kind': 'list', 'elem': 'int', 'T': [500, 1000, 1500]},
                                                  {'kind': 'ndarray', 'elem': 'int', 'T': [500]}])
    w['Ti'] = [500, 1000, 200, 6000]
    D.append(w)
    for sp in (n7, n9, sh):
        for first in ('list', 'ndarray'):
            kinds = [first, 'ndarray' if first == 'list' else 'list']
            arrays = [_make_array(rng, sp, n, kind=kinds[n % 2], elem='int' if n % 7 == 3 else 'float')
                      for n in range(1, 51)]
            D.append(_case(rng, dict(sp), 'arbitrary', arrays=arrays, n_ivals=3))
    # histories on one re-used temperature buffer: ramp T += dT across T_mid, every operation for every
    # class and container
    ramp = {'kind': 'ndarray', 'T0': [400.0, 600.0, 800.0, 950.0], 'steps': [['shift', 300.0], ['shift', 300.0]]}
    ramp_l = dict(ramp, kind='list')
    D.append(_case(rng, dict(n7), 'arbitrary', hist=[ramp, ramp_l]))
    D.append(_case(rng, dict(n9), 'arbitrary', hist=[ramp, ramp_l]))
    D.append(_case(rng, dict(sh), 'arbitrary', hist=[dict(ramp, steps=[['shift', 300.0], ['shift', 200.0]]),
                                                    dict(ramp_l, steps=[['shift', 300.0], ['shift', 200.0]])]))
    for sp in (n7, n9, sh):
        hs = [_make_history(rng, sp, kind=k, n=6, ops=['shift', 'move', 'reverse', 'assign', 'move', 'shift'])
              for k in ('list', 'ndarray')]
        D.append(_case(rng, dict(sp), 'arbitrary', hist=hs))
    # every narrow / unsigned integer and single precision temperature dtype for every class
    sh_wide = dict(sh, T_high=5500.0)
    for sp in (n7, n9, sh_wide):
        D.append(_case(rng, dict(sp), 'arbitrary', dtypes=DTYPES))
    # every live-edit operation for every class; gas-phase conditions with and without a coverage model
    n9c = {'type': 'Nasa9', 'name': 'n9', 'phase': 'S',
           'nasas': [{'T_low': 200.0 + 1800.0 * i, 'T_high': 2000.0 + 1800.0 * i,
                      'a': S.gen_nasa9_coeffs(rng, style='arbitrary')} for i in range(3)]}
    for sp in (n7, n9c, sh):
        ops = EDIT_OPS[sp['type']]
        D.append(_case(rng, json.loads(json.dumps(sp)), 'arbitrary', edits=ops, cov=True))
        D.append(_case(rng, json.loads(json.dumps(sp)), 'arbitrary', edits=list(reversed(ops)), cov=False))
    # the in-place coefficient idiom right after array calls, then the break moved through the segment objects
    D.append(_case(rng, json.loads(json.dumps(n7)), 'arbitrary', edits=['coef_scale', 'get_a_inplace']))
    D.append(_case(rng, json.loads(json.dumps(n9)), 'arbitrary', edits=['seg_bounds', 'seg_bound_one']))
    # NASA-9: 1-4 segments, contiguous and with a gap
    for nseg in (1, 2, 3, 4):
        for gap in (False, True):
            if nseg == 1 and gap:
                continue
            style = rng.choice(['arbitrary', 'realistic'])
            D.append(_case(rng, _species(rng, 'Nasa9', style, nseg=nseg, gap=gap), style))
    # zero polynomials and identical segments
    z7 = dict(n7, a_low=[0.0] * 7, a_high=[0.0] * 7)
    D.append(_case(rng, z7, 'unit'))
    same = dict(n7, a_high=list(n7['a_low']))
    D.append(_case(rng, same, 'arbitrary'))
    # every Shomate unit; every coefficient style for every class
    for u in S.SHOMATE_UNITS:
        D.append(_case(rng, _species(rng, 'Shomate', 'arbitrary', units=u), 'arbitrary'))
    for style in ('arbitrary', 'realistic', 'unit'):
        for kind in ('Nasa', 'Nasa9', 'Shomate'):
            D.append(_case(rng, _species(rng, kind, style), style))
    return D


def generate(rng, tier):
    kind = rng.choices(['Nasa', 'Nasa9', 'Shomate'], [8, 8, 5])[0]
    style = rng.choices(['arbitrary', 'realistic', 'unit'], [5, 3, 2])[0]
    sp = _species(rng, kind, style)
    return _case(rng, sp, style, n_T=rng.randint(1, 4), n_ivals=rng.randint(1, 3))


# ---------------------------------------------------------------- probes
_P = {'ctx': None}


def _snap_self_T(label, loc):
    return (loc.get('self'), loc.get('T'))


def _inv_get_a(label, ret, snap):
    import numpy as np
    ctx = _P['ctx']
    if ctx is None or not isinstance(snap, tuple) or len(snap) != 2 or snap[0] is None:
        return
    obj, T = snap
    if isinstance(T, (list, tuple)) or getattr(T, 'ndim', 0):
        return
    T_mid = obj.T_mid
    want_high = bool(T >= T_mid)
    ctx.branch('get_a:T==T_mid' if T == T_mid else ('get_a:high' if want_high else 'get_a:low'))
    want = obj.a_high if want_high else obj.a_low
    ok = ret is want or (getattr(ret, 'shape', None) == getattr(want, 'shape', ()) and np.array_equal(ret, want))
    ctx.check('INV', ok, {'at': 'Nasa.get_a', 'want': 'a_high' if want_high else 'a_low',
                          'where': 'T==T_mid' if T == T_mid else 'T!=T_mid'},
              T=T, T_mid=T_mid, returned=ret)


def _inv_get_nasa(label, ret, snap):
    ctx = _P['ctx']
    if ctx is None or not isinstance(snap, tuple) or len(snap) != 2 or snap[0] is None:
        return
    obj, T = snap
    try:
        lo, hi = ret.T_low, ret.T_high
    except AttributeError:
        ctx.fail('INV', {'at': 'Nasa9._get_nasa', 'what': 'not_a_segment'}, returned=repr(ret)[:100])
        return
    ctx.branch('_get_nasa:T==T_low' if T == lo else ('_get_nasa:T==T_high' if T == hi else '_get_nasa:interior'))
    member = any(ret is n for n in obj.nasas)
    ctx.check('INV', bool(lo <= T <= hi) and member, {'at': 'Nasa9._get_nasa', 'what': 'bounds_contain_T'},
              T=T, T_low=lo, T_high=hi, member=member)


def install_probes(pr, ctx):
    _P['ctx'] = ctx

    def nasa_mod():
        import pmutt.empirical.nasa as m
        return m

    def sh_mod():
        import pmutt.empirical.shomate as m
        return m
    pr.watch(lambda: nasa_mod().Nasa.get_a, 'Nasa.get_a', on_call=_snap_self_T, on_ret=_inv_get_a)
    pr.watch(lambda: nasa_mod().Nasa9._get_nasa, 'Nasa9._get_nasa', on_call=_snap_self_T, on_ret=_inv_get_nasa)
    pr.watch(lambda: sh_mod().Shomate._check_T, 'Shomate._check_T')
    for f in ('get_nasa_CpoR', 'get_nasa_HoRT', 'get_nasa_SoR', 'get_nasa9_CpoR', 'get_nasa9_HoRT',
              'get_nasa9_SoR'):
        pr.watch(lambda f=f: getattr(nasa_mod(), f), f)
    for f in ('get_shomate_CpoR', 'get_shomate_HoRT', 'get_shomate_SoR', 'get_shomate_GoRT'):
        pr.watch(lambda f=f: getattr(sh_mod(), f), f)


# ---------------------------------------------------------------- reference
_REF = {'Nasa': (poly.nasa7_CpoR, poly.nasa7_HoRT, poly.nasa7_SoR, 7),
        'Nasa9': (poly.nasa9_CpoR, poly.nasa9_HoRT, poly.nasa9_SoR, 9),
        'Shomate': (poly.shomate_CpoR, poly.shomate_HoRT, poly.shomate_SoR, 8)}


def _ref_seg(kind, a, T, extra):
    """{q: (value, magnitude)} for coefficient vector a; magnitude = sum of |term| (used only
    to scale rounding error, never as a verdict)."""
    fc, fh, fs, n = _REF[kind]
    T = float(T)
    out = {}
    mags = {}
    for q, f in (('CpoR', fc), ('HoRT', fh), ('SoR', fs)):
        out[q] = f(a, T, *extra)
        m = 0.0
        for k in range(n):
            if a[k] != 0.0:
                e = [0.0] * n
                e[k] = 1.0
                m += abs(a[k] * f(e, T, *extra))
        mags[q] = max(1.0, m)
    out['GoRT'] = out['HoRT'] - out['SoR']
    mags['GoRT'] = mags['HoRT'] + mags['SoR']
    return {q: (out[q], mags[q]) for q in QS}


class _Model:
    """reference model of one species spec"""

    def __init__(self, sp, R=None):
        self.sp = sp
        self.kind = sp['type']
        self.extra = (R,) if self.kind == 'Shomate' else ()
        self._cache = {}

    def candidates(self, T):
        """list of (segment label, coefficient list) the statement allows for T"""
        sp = self.sp
        if self.kind == 'Nasa':
            return [('a_high', sp['a_high'])] if T >= sp['T_mid'] else [('a_low', sp['a_low'])]
        if self.kind == 'Shomate':
            return [('a', sp['a'])]
        return [('seg%d' % i, n['a']) for i, n in enumerate(sp['nasas']) if n['T_low'] <= T <= n['T_high']]

    def ref(self, T):
        """list of {q: (value, magnitude)} -- one per admissible segment"""
        key = float(T)
        r = self._cache.get(key)
        if r is None:
            r = [_ref_seg(self.kind, a, key, self.extra) for _, a in self.candidates(key)]
            self._cache[key] = r
        return r


def _tkind(T):
    import numpy as np
    if isinstance(T, np.ndarray):
        return 'ndarray'
    if isinstance(T, list):
        return 'list'
    if isinstance(T, (int, np.integer)) and not isinstance(T, bool):
        return 'int'
    return 'float'


def _values(ctx, oracle, mech, ret, n):
    """normalise a returned value to a float vector of n entries (shape-only differences are
    tolerated, a wrong number of values is a violation)."""
    import numpy as np
    try:
        arr = np.asarray(ret, dtype=float).ravel()
    except (TypeError, ValueError):
        ctx.fail(oracle, dict(mech, what='not_numeric'), returned=repr(ret)[:200])
        return None
    if arr.size != n:
        ctx.fail(oracle, dict(mech, what='n_values'), got=arr.size, want=n, returned=arr)
        return None
    if type(ret) is not float and getattr(ret, 'shape', None) not in ((), (n,)):
        ctx.extra['shape_normalised'] = ctx.extra.get('shape_normalised', 0) + 1
    return arr


class _Drv:
    """drives one species object; caches scalar results"""

    def __init__(self, ctx, obj, model, cname):
        self.ctx, self.obj, self.model, self.cname = ctx, obj, model, cname
        self.sc = {}
        self.kw = {}              # conditions handed identically to every getter (P, <name>_kwargs)
        self.tag = {}             # extra mech entries ({'after': edit} / {'cond': ...})
        self.relational = False   # True: no comparison with the reference basis (E1), relations only
        self.mag = lambda T: 0.0  # magnitude of the condition dependent terms (rounding scale only)

    def scalar(self, q, T, oracle):
        """real scalar getter -> float | None (violation of `oracle` recorded)"""
        tk = _tkind(T)
        key = (q, tk, T)
        if key in self.sc:
            return self.sc[key]
        mech = {**self.tag, 'class': self.cname, 'q': q, 'tkind': tk}
        r = self.ctx.call(oracle, mech, getattr(self.obj, 'get_' + q), T=T, **self.kw)
        v = None
        if r is not core.NOVALUE:
            arr = _values(self.ctx, oracle, mech, r, 1)
            if arr is not None:
                v = float(arr[0])
        self.sc[key] = v
        return v

    def e1_scalar(self, T, where='direct'):
        """E1 (+E3) at one scalar temperature"""
        ctx = self.ctx
        tk = _tkind(T)
        refs = self.model.ref(T)
        got = {}
        for q in QS:
            v = self.scalar(q, T, 'E1')
            got[q] = v
            if v is None:
                continue
            mech = {**self.tag, 'class': self.cname, 'q': q, 'tkind': tk}
            if self.relational:
                continue
            best = min(refs, key=lambda r: abs(v - r[q][0]) / r[q][1])
            ctx.close('E1', v, best[q][0], TOL_E1, mech, scale=best[q][1], T=T, where=where,
                      segments=[s for s, _ in self.model.candidates(float(T))])
        if None not in (got['GoRT'], got['HoRT'], got['SoR']):
            ctx.close('E3', got['GoRT'], got['HoRT'] - got['SoR'], TOL_E3,
                      {**self.tag, 'class': self.cname, 'tkind': tk}, scale=refs[0]['GoRT'][1], T=T)
        return got

    def e5_array(self, arr):
        """E5 (+E3) for one array spec"""
        import numpy as np
        ctx = self.ctx
        Tl = [int(x) for x in arr['T']] if arr['elem'] == 'int' else [float(x) for x in arr['T']]
        n = len(Tl)
        got = {}
        for q in QS:
            mech = {**self.tag, 'class': self.cname, 'q': q, 'tkind': arr['kind'], 'elem': arr['elem']}
            Tin = np.array(Tl) if arr['kind'] == 'ndarray' else list(Tl)
            r = ctx.call('E5', mech, getattr(self.obj, 'get_' + q), T=Tin, **self.kw)
            if list(np.asarray(Tin).tolist()) != Tl:
                ctx.extra['input_mutated'] = ctx.extra.get('input_mutated', 0) + 1
            if r is core.NOVALUE:
                continue
            vals = _values(ctx, 'E5', mech, r, n)
            if vals is None:
                continue
            got[q] = vals
            want, scale = [], []
            for T in Tl:
                v = self.scalar(q, float(T), 'E1')
                if v is None:
                    break
                want.append(v)
                scale.append(self.model.ref(T)[0][q][1] + self.mag(T))
            else:
                ctx.close('E5', vals, want, TOL_E5, mech, scale=np.array(scale), T=Tl, n=n)
        if all(q in got for q in ('GoRT', 'HoRT', 'SoR')):
            scale = np.array([self.model.ref(T)[0]['GoRT'][1] + self.mag(T) for T in Tl])
            ctx.close('E3', got['GoRT'], got['HoRT'] - got['SoR'], TOL_E3,
                      {**self.tag, 'class': self.cname, 'tkind': arr['kind']}, scale=scale, T=Tl)

    def eval_same(self, T, kind, tag):
        """E5 (+E3) on THE GIVEN container object (no copy is made): every getter result equals the
        per-element scalar evaluation of the container's *current* contents, and the getter leaves
        the caller's container untouched."""
        import numpy as np
        ctx = self.ctx
        snap = [float(x) for x in T]
        n = len(snap)
        got = {}
        for q in QS:
            mech = {**self.tag, 'class': self.cname, 'q': q, 'tkind': kind, 'hist': tag}
            r = ctx.call('E5', mech, getattr(self.obj, 'get_' + q), T=T, **self.kw)
            now = [float(x) for x in T]
            if now != snap:
                ctx.fail('E5', dict(mech, what='input_modified'), before=snap, after=now)
                T[:] = snap                                   # restore, in place
            else:
                ctx.held('E5')
            if r is core.NOVALUE:
                continue
            vals = _values(ctx, 'E5', mech, r, n)
            if vals is None:
                continue
            got[q] = vals
            want, scale = [], []
            for x in snap:
                v = self.scalar(q, x, 'E1')
                if v is None:
                    break
                want.append(v)
                scale.append(self.model.ref(x)[0][q][1])
            else:
                ctx.close('E5', vals, want, TOL_E5, mech, scale=np.array(scale), T=snap, n=n)
        if all(q in got for q in ('GoRT', 'HoRT', 'SoR')):
            scale = np.array([self.model.ref(x)[0]['GoRT'][1] for x in snap])
            ctx.close('E3', got['GoRT'], got['HoRT'] - got['SoR'], TOL_E3,
                      {**self.tag, 'class': self.cname, 'tkind': kind, 'hist': tag}, scale=scale, T=snap)

    def history(self, h):
        """evaluate, change the same container in place, evaluate again"""
        import numpy as np
        ctx = self.ctx
        sp = self.model.sp
        kind = h['kind']
        T = np.array(h['T0'], dtype=float) if kind == 'ndarray' else [float(x) for x in h['T0']]
        ident = id(T)
        ctx.cls('hist:%s' % kind)
        self.eval_same(T, kind, 'initial')
        for step in h['steps']:
            before = [_seg_index(sp, float(x)) for x in T]
            op = step[0]
            if op == 'shift':
                if kind == 'ndarray':
                    T += step[1]
                else:
                    for i in range(len(T)):
                        T[i] += step[1]
            elif op == 'reverse':
                if kind == 'ndarray':
                    T[:] = T[::-1].copy()
                else:
                    T.reverse()
            elif op == 'move':
                T[step[1]] = float(step[2])
            else:
                T[:] = [float(x) for x in step[1]]
            if id(T) != ident or not all(_in_range(sp, float(x)) for x in T):
                raise core.HarnessError('history left the range or rebound the container: %r' % (step,))
            after = [_seg_index(sp, float(x)) for x in T]
            ctx.cls('hist:%s' % op)
            if before != after:
                ctx.cls('hist:element_changed_segment')
                ctx.nontrivial()
            self.eval_same(T, kind, op)

    def alternation(self, alt):
        """two live array objects evaluated alternately, scalars in between: nothing may be
        remembered from one call to the next"""
        import numpy as np
        kind = alt['kind']
        mk = (lambda v: np.array(v, dtype=float)) if kind == 'ndarray' else (lambda v: [float(x) for x in v])
        A, B = mk(alt['A']), mk(alt['B'])
        sc = list(alt['scalars'])
        self.ctx.cls('hist:alternate')
        for k, T in enumerate((A, B, A, B)):
            self.eval_same(T, kind, 'alternate')
            x = float(sc[k % len(sc)])
            for q in QS:                                       # forget the cached scalar answers
                self.sc.pop((q, 'float', x), None)
            self.e1_scalar(x, where='between_arrays')

    def _typed(self, q, T, typ, dt, oracle):
        """real scalar getter at the numpy-typed scalar typ(T) -> float | None"""
        mech = {**self.tag, 'class': self.cname, 'q': q, 'tkind': 'npscalar', 'dtype': dt}
        r = self.ctx.call(oracle, mech, getattr(self.obj, 'get_' + q), T=typ(T), **self.kw)
        if r is core.NOVALUE:
            return None
        arr = _values(self.ctx, oracle, mech, r, 1)
        return None if arr is None else float(arr[0])

    def e2_interval(self, T1, T2, typ=None, dt=None):
        """integral forms on [T1, T2]; with typ/dt the end-point H and S are requested at the
        numpy-typed scalars typ(T1), typ(T2) (integer grids)"""
        ctx = self.ctx
        mech = {**self.tag, 'class': self.cname} if dt is None else {**self.tag, 'class': self.cname, 'dtype': dt}
        cache = {}

        class Abort(Exception):
            pass

        def cp(x):
            v = cache.get(x)
            if v is None:
                v = self._cp_fast(x)
                if v is None:
                    raise Abort()
                cache[x] = v
            return v
        try:
            Ih, eh = quad.integrate(cp, T1, T2)
            Is, es = quad.integrate(lambda x: cp(x) / x, T1, T2)
        except Abort:
            return
        if typ is None:
            H1, H2 = self.scalar('HoRT', T1, 'E2'), self.scalar('HoRT', T2, 'E2')
            S1, S2 = self.scalar('SoR', T1, 'E2'), self.scalar('SoR', T2, 'E2')
        else:
            H1, H2 = self._typed('HoRT', T1, typ, dt, 'E2'), self._typed('HoRT', T2, typ, dt, 'E2')
            S1, S2 = self._typed('SoR', T1, typ, dt, 'E2'), self._typed('SoR', T2, typ, dt, 'E2')
        r1, r2 = self.model.ref(T1)[0], self.model.ref(T2)[0]
        if H1 is not None and H2 is not None:
            scale = max(1.0, abs(Ih)) + (CANCEL / TOL_E2) * (T1 * r1['HoRT'][1] + T2 * r2['HoRT'][1])
            if eh > 0.01 * TOL_E2 * scale:
                ctx.inconc('E2', 'quadrature_error_H', T1=T1, T2=T2, est=eh)
            else:
                ctx.close('E2', T2 * H2 - T1 * H1, Ih, TOL_E2, dict(mech, rel='dH/dT=Cp'), scale=scale,
                          T1=T1, T2=T2, quad_err=eh)
        if S1 is not None and S2 is not None:
            scale = max(1.0, abs(Is)) + (CANCEL / TOL_E2) * (r1['SoR'][1] + r2['SoR'][1])
            if es > 0.01 * TOL_E2 * scale:
                ctx.inconc('E2', 'quadrature_error_S', T1=T1, T2=T2, est=es)
            else:
                ctx.close('E2', S2 - S1, Is, TOL_E2, dict(mech, rel='dS/dT=Cp/T'), scale=scale,
                          T1=T1, T2=T2, quad_err=es)

    def _close(self, loose, oracle, got, want, tol, mech, scale, **detail):
        """ctx.close, but a single precision comparison keeps its own maximum-error record
        ('<oracle>:Shomate-float32') so that the audit trail of the tight tolerances stays clean"""
        ctx = self.ctx
        if not loose:
            return ctx.close(oracle, got, want, tol, mech, scale=scale, **detail)
        e = ctx.err(got, want, scale)
        key = oracle + ':Shomate-float32'
        if e <= tol and e > ctx.max_err.get(key, 0.0):
            ctx.max_err[key] = e
        return ctx.check(oracle, e <= tol, mech, got=got, want=want, err=e, tol=tol, **detail)

    def dtype_stratum(self, ent):
        """temperatures typed as a narrow / unsigned integer or single precision float, as numpy
        scalars and as ndarray elements: E1 + E3 at the typed scalar, E5 (array element equals the
        scalar float evaluation of the same numeric value) + E3 on the typed array, E2 between two
        typed integer end points, the NASA-7 helpers at the typed scalar."""
        import numpy as np
        ctx = self.ctx
        dt = ent['dtype']
        typ = np.dtype(dt).type
        vals = list(ent['T'])
        # Shomate evaluates a float32 temperature in single precision (t = T/1000 and its powers stay
        # float32): only single precision agreement with the double evaluation can be demanded there
        loose = dt == 'float32' and self.cname == 'Shomate'
        tol1, tol5 = (TOL_F32, TOL_F32) if loose else (TOL_E1, TOL_E5)
        typed = {}
        for v in vals[:4]:
            x = float(typ(v))
            refs = self.model.ref(x)
            got = {}
            for q in QS:
                g = self._typed(q, v, typ, dt, 'E1')
                got[q] = g
                if g is None:
                    continue
                best = min(refs, key=lambda r: abs(g - r[q][0]) / r[q][1])
                self._close(loose, 'E1', g, best[q][0], tol1, {**self.tag, 'class': self.cname, 'q': q, 'tkind': 'npscalar',
                                                               'dtype': dt}, scale=best[q][1], T=x)
            typed[x] = got
            if None not in got.values():
                ctx.close('E3', got['GoRT'], got['HoRT'] - got['SoR'], TOL_E3,
                          {**self.tag, 'class': self.cname, 'tkind': 'npscalar', 'dtype': dt}, scale=refs[0]['GoRT'][1], T=x)
        arr = np.array(vals, dtype=dt)
        xs = [float(x) for x in arr]
        res = {}
        for q in QS:
            mech = {**self.tag, 'class': self.cname, 'q': q, 'tkind': 'ndarray', 'elem': dt}
            r = ctx.call('E5', mech, getattr(self.obj, 'get_' + q), T=arr, **self.kw)
            if r is core.NOVALUE:
                continue
            out = _values(ctx, 'E5', mech, r, len(xs))
            if out is None:
                continue
            res[q] = out
            want, scale = [], []
            for x in xs:
                w = self.scalar(q, x, 'E1')
                if w is None:
                    break
                want.append(w)
                scale.append(self.model.ref(x)[0][q][1])
            else:
                self._close(loose, 'E5', out, want, tol5, mech, scale=np.array(scale), T=xs, dtype=dt)
            if loose:                       # array element == scalar evaluation of the same typed value
                pairs = [(out[i], typed[x][q], self.model.ref(x)[0][q][1]) for i, x in enumerate(xs)
                         if x in typed and typed[x].get(q) is not None]
                if pairs:
                    ctx.close('E5', [a for a, _, _ in pairs], [b for _, b, _ in pairs], TOL_E5,
                              dict(mech, what='same_dtype_scalar'), scale=np.array([c for _, _, c in pairs]), T=xs)
        if all(q in res for q in ('GoRT', 'HoRT', 'SoR')):
            scale = np.array([self.model.ref(x)[0]['GoRT'][1] for x in xs])
            ctx.close('E3', res['GoRT'], res['HoRT'] - res['SoR'], TOL_E3,
                      {**self.tag, 'class': self.cname, 'tkind': 'ndarray', 'elem': dt}, scale=scale, T=xs)
        if ent.get('ival'):
            T1, T2 = ent['ival']
            self.e2_interval(float(T1), float(T2), typ=typ, dt=dt)
        if self.cname == 'Nasa' and dt != 'float32':
            import pmutt.empirical.nasa as m
            for v in vals[:2]:
                x = float(typ(v))
                (seg, a), ref = self.model.candidates(x)[0], self.model.ref(x)[0]
                for q in ('CpoR', 'HoRT', 'SoR'):
                    fn = 'get_nasa_' + q
                    mech = {'class': 'helper', 'fn': fn, 'dtype': dt}
                    r = ctx.call('E1', mech, getattr(m, fn), a=np.array(a, dtype=float), T=typ(v))
                    if r is core.NOVALUE:
                        continue
                    out = _values(ctx, 'E1', mech, r, 1)
                    if out is not None:
                        ctx.close('E1', float(out[0]), ref[q][0], TOL_E1, mech, scale=ref[q][1], T=x, segment=seg)

    def _cp_fast(self, x):
        """real scalar Cp getter at a quadrature node (not cached across the case)"""
        mech = {**self.tag, 'class': self.cname, 'q': 'CpoR', 'tkind': 'float'}
        r = self.ctx.call('E2', mech, self.obj.get_CpoR, T=x, **self.kw)
        if r is core.NOVALUE:
            return None
        arr = _values(self.ctx, 'E2', mech, r, 1)
        return None if arr is None else float(arr[0])


# ---------------------------------------------------------------- helpers under test
def _helpers(ctx, sp, model, Ts):
    """E1 / E3 for the module level basis evaluators, per segment, called as documented"""
    import numpy as np
    kind = sp['type']
    if kind == 'Shomate':
        import pmutt.empirical.shomate as m
        a = np.array(sp['a'], dtype=float)
        Tarr = np.array([float(T) for T in Ts])
        got = {}
        for q in QS:
            fn = 'get_shomate_' + q
            mech = {'class': 'helper', 'fn': fn}
            r = ctx.call('E1', mech, getattr(m, fn), a=a, T=Tarr.copy(), units=sp['units'])
            if r is core.NOVALUE:
                continue
            vals = _values(ctx, 'E1', mech, r, len(Tarr))
            if vals is None:
                continue
            got[q] = vals
            want = [model.ref(T)[0][q][0] for T in Tarr]
            scale = np.array([model.ref(T)[0][q][1] for T in Tarr])
            ctx.close('E1', vals, want, TOL_E1, mech, scale=scale, T=Tarr, units=sp['units'])
        if all(q in got for q in ('GoRT', 'HoRT', 'SoR')):
            scale = np.array([model.ref(T)[0]['GoRT'][1] for T in Tarr])
            ctx.close('E3', got['GoRT'], got['HoRT'] - got['SoR'], TOL_E3, {'class': 'helper', 'fn': 'get_shomate_GoRT'},
                      scale=scale, T=Tarr)
        return
    import pmutt.empirical.nasa as m
    prefix = 'get_nasa_' if kind == 'Nasa' else 'get_nasa9_'
    for T in Ts:
        T = float(T)
        for (seg, a), ref in zip(model.candidates(T), model.ref(T)):
            av = np.array(a, dtype=float)
            for q in ('CpoR', 'HoRT', 'SoR'):
                fn = prefix + q
                mech = {'class': 'helper', 'fn': fn}
                r = ctx.call('E1', mech, getattr(m, fn), a=av, T=T)
                if r is core.NOVALUE:
                    continue
                vals = _values(ctx, 'E1', mech, r, 1)
                if vals is not None:
                    ctx.close('E1', float(vals[0]), ref[q][0], TOL_E1, mech, scale=ref[q][1], T=T, segment=seg)


def _single_nasa9(ctx, obj, sp, model, Ts, Ti):
    """E1 on the SingleNasa9 segment objects themselves (scalar float and int T)"""
    for i, seg in enumerate(sp['nasas']):
        try:
            sobj = obj.nasas[i]
        except Exception:                                    # refactored container: boundary oracles decide
            return
        inside = [T for T in list(Ts) + list(Ti) if seg['T_low'] <= T <= seg['T_high']]
        if i == 0 and inside:
            # telemetry only: the segment object's docstring admits (N,) arrays, the property speaks
            # of species; count how often a 2-element array is refused
            import numpy as np
            try:
                sobj.get_HoRT(T=np.array([float(inside[0]), float(inside[0])]))
            except Exception:
                ctx.extra['SingleNasa9_array_T_refused'] = ctx.extra.get('SingleNasa9_array_T_refused', 0) + 1
        ints = [T for T in inside if isinstance(T, int)][:2]
        for T in inside[:3] + ints:
            ref = _ref_seg('Nasa9', seg['a'], T, ())
            for q in ('CpoR', 'HoRT', 'SoR'):
                mech = {'class': 'SingleNasa9', 'q': q, 'tkind': _tkind(T)}
                r = ctx.call('E1', mech, getattr(sobj, 'get_' + q), T=T)
                if r is core.NOVALUE:
                    continue
                vals = _values(ctx, 'E1', mech, r, 1)
                if vals is not None:
                    ctx.close('E1', float(vals[0]), ref[q][0], TOL_E1, mech, scale=ref[q][1], T=T, segment=i)


# ---------------------------------------------------------------- live edits and conditions
def _seg_obj(obj, i, via):
    return obj[i] if via == 'getitem' else obj.nasas[i]


def _apply_edit(obj, op):
    """perform the edit on the live pMuTT object exactly as a user would"""
    import numpy as np
    name = op[0]
    if name == 'coef_inplace':
        getattr(obj, op[1])[op[2]] = op[3]
    elif name == 'coef_scale':
        getattr(obj, op[1])[op[2]] *= op[3]
    elif name == 'get_a_inplace':
        a = obj.get_a(T=op[1])
        a[op[2]] = op[3]
    elif name == 'coef_assign':
        setattr(obj, op[1], np.array(op[2], dtype=float))
    elif name == 'attr':
        setattr(obj, op[1], op[2])
    elif name == 'seg_bounds':
        _seg_obj(obj, op[1], op[3]).T_high = op[2]
        _seg_obj(obj, op[1] + 1, op[3]).T_low = op[2]
    elif name == 'seg_bound_one':
        setattr(_seg_obj(obj, op[1], op[4]), op[2], op[3])
    elif name == 'seg_coef_inplace':
        _seg_obj(obj, op[1], op[4]).a[op[2]] = op[3]
    elif name == 'seg_coef_assign':
        _seg_obj(obj, op[1], op[3]).a = np.array(op[2], dtype=float)
    else:
        from pmutt.empirical.nasa import SingleNasa9
        mk = lambda d: SingleNasa9(T_low=d['T_low'], T_high=d['T_high'], a=np.array(d['a'], dtype=float))
        if name == 'seg_replace':
            obj.nasas[op[1]] = mk(op[2])
        elif name == 'seg_append':
            obj.nasas.append(mk(op[1]))
        elif name == 'nasas_assign':
            obj.nasas = [mk(d) for d in op[1]]
        else:
            raise core.HarnessError('unknown edit %r' % (op,))


def _reread(obj, kind, sp):
    """species spec as the live object now reports it through its public attributes"""
    fl = lambda v: [float(x) for x in v]
    if kind == 'Nasa':
        return dict(sp, T_low=float(obj.T_low), T_mid=float(obj.T_mid), T_high=float(obj.T_high),
                    a_low=fl(obj.a_low), a_high=fl(obj.a_high))
    if kind == 'Shomate':
        return dict(sp, T_low=float(obj.T_low), T_high=float(obj.T_high), a=fl(obj.a), units=obj.units)
    return dict(sp, nasas=[{'T_low': float(n.T_low), 'T_high': float(n.T_high), 'a': fl(n.a)} for n in obj.nasas])


def _edits(ctx, obj, kind, sp, edits):
    """after every edit of the live object: E1/E3 at scalars, E5/E3 on an array, E4 (NASA-9) against the
    reference model of the species *as the object now reports itself*; one E2 interval at the end"""
    from pmutt import constants as c
    cur = sp
    drv = None
    for ent in edits.get('steps', []):
        op = ent['op']
        name = op[0] if op[0] != 'attr' else ('T_bounds' if op[1] in ('T_low', 'T_high') else op[1])
        ctx.cls('edit:%s:%s' % (kind, name))
        if ctx.call('E1', {'class': kind, 'step': 'edit:' + name}, _apply_edit, obj, op) is core.NOVALUE:
            return
        cur = _reread(obj, kind, cur)
        model = _Model(cur, c.R(cur['units']) if kind == 'Shomate' else None)
        drv = _Drv(ctx, obj, model, kind)
        drv.tag = {'after': name}
        for T in ent['T']:
            T = float(T)
            if model.candidates(T):
                drv.e1_scalar(T)
            elif kind == 'Nasa9':
                for q in QS:
                    ctx.raises('E4', (Exception,), {'class': kind, 'q': q, 'where': 'left_by_edit', 'after': name,
                                                    'tkind': 'float'}, getattr(obj, 'get_' + q), T=T)
        if all(model.candidates(float(T)) for T in ent['arr']['T']):
            drv.e5_array(ent['arr'])
        else:
            ctx.extra['edit_not_reflected'] = ctx.extra.get('edit_not_reflected', 0) + 1
        for o in ent.get('out', []):
            if not model.candidates(float(o[0])):
                for q in QS:
                    ctx.raises('E4', (Exception,), {'class': kind, 'q': q, 'where': o[1], 'dist': o[2], 'after': name,
                                                    'tkind': 'float'}, getattr(obj, 'get_' + q), T=float(o[0]))
    if drv is not None and edits.get('ival'):
        T1, T2 = float(edits['ival'][0]), float(edits['ival'][1])
        c1, c2 = drv.model.candidates(T1), drv.model.candidates(T2)
        if len(c1) == 1 and len(c2) == 1 and c1[0][0] == c2[0][0]:
            drv.e2_interval(T1, T2)


def _conditions(ctx, sp, kind, model, cond):
    """E3, E5, E2 (relations only) for the same coefficient set built as a gas and evaluated at a
    pressure, optionally with a coverage model attached; identical conditions to every getter"""
    extra = {}
    base = {}
    tag = 'gas_P'
    if cond.get('cov'):
        from pmutt.mixture.cov import PiecewiseCovEffect
        cv = cond['cov']
        extra['misc_models'] = [PiecewiseCovEffect(name_i=sp['name'], name_j='B(S)', intervals=list(cv['intervals']),
                                                   slopes=list(cv['slopes']))]
        base['B(S)_kwargs'] = {'x': cv['x']}
        tag = 'gas_P+cov'
    ctx.cls('cond:%s:%s' % (tag, kind))
    objg = ctx.call('E3', {'class': kind, 'step': 'construct', 'cond': tag}, S.build, dict(sp, phase='G'), **extra)
    if objg is core.NOVALUE:
        return
    for n, P in enumerate(cond['P']):
        drv = _Drv(ctx, objg, model, kind)
        drv.kw = dict(base, P=P)
        drv.tag = {'cond': tag}
        drv.relational = True
        usum = sum(abs(v) for v in cond['cov']['slopes']) if cond.get('cov') else 0.0
        drv.mag = lambda T, P=P, usum=usum: abs(math.log(P)) + usum / (1.9872e-3 * float(T))
        for T in cond['T']:
            drv.e1_scalar(float(T))
        drv.e5_array(cond['arr'])
        if n == 0:
            drv.e2_interval(float(cond['ival'][0]), float(cond['ival'][1]))
            s1 = drv.scalar('SoR', float(cond['T'][0]), 'E3')
            drv0 = _Drv(ctx, objg, model, kind)
            drv0.kw = dict(base, P=1.0)
            s0 = drv0.scalar('SoR', float(cond['T'][0]), 'E3')
            if s1 is not None and s0 is not None and s1 != s0:
                ctx.extra['cond_S_depends_on_P'] = ctx.extra.get('cond_S_depends_on_P', 0) + 1


# ---------------------------------------------------------------- driver
def _classify_T(ctx, sp, Ts):
    """record the boundary class of every scalar temperature; True if one of them is on or
    adjacent to a break (a bound between two segments / a gap edge)"""
    cl = dict((float(b), c) for b, c in _breaks(sp))
    adj = False
    for T in Ts:
        c = cl.get(float(T))
        if c:
            ctx.cls(c)
            if c not in ('T:T_low', 'T:T_high'):
                adj = True
        else:
            ctx.cls('T:interior')
    return adj


def run_case(spec, ctx):
    import warnings
    import numpy as np
    from pmutt import constants as c
    sp = spec['sp']
    kind = sp['type']
    R = None
    if kind == 'Shomate':
        try:
            R = c.R(sp['units'])
        except KeyError:
            ctx.cls('units_unsupported:%s' % sp['units'])     # outside the quantifier
            return
        ctx.cls('units:%s' % sp['units'])
    ctx.cls(kind, 'style:%s' % spec.get('style'))
    obj = ctx.call('E1', {'class': kind, 'step': 'construct'}, S.build, sp)
    if obj is core.NOVALUE:
        return
    model = _Model(sp, R)
    drv = _Drv(ctx, obj, model, kind)
    segs = _segments(sp)
    breaks_inner = set()
    if kind == 'Nasa':
        breaks_inner = {sp['T_mid']}
    elif kind == 'Nasa9':
        ctx.cls('nasa9:nseg=%d' % len(segs))
        breaks_inner = {h for (l, h) in segs[:-1]} | {l for (l, h) in segs[1:]}
        if any(h0 < l1 for (_, h0), (l1, _) in zip(segs[:-1], segs[1:])):
            ctx.cls('nasa9:gap')

    # ---- scalar float temperatures: E1, E3
    if _classify_T(ctx, sp, spec['Ts']):
        ctx.nontrivial()
    first = None
    with warnings.catch_warnings(record=True) as wlist:
        warnings.simplefilter('always')
        for T in spec['Ts']:
            ctx.cls('tkind:float')
            g = drv.e1_scalar(float(T))
            if first is None:
                first = (float(T), g)
        # ---- scalar int temperatures
        for T in spec['Ti']:
            ctx.cls('tkind:int')
            if float(T) in breaks_inner:
                ctx.cls('int:on_break')
                ctx.nontrivial()
            drv.e1_scalar(int(T))
    nw = len([w for w in wlist if issubclass(w.category, RuntimeWarning) and 'Requested temperature' in str(w.message)])
    if nw:
        ctx.extra['inrange_warnings'] = ctx.extra.get('inrange_warnings', 0) + nw

    # ---- module level helpers and segment objects
    _helpers(ctx, sp, model, spec['Ts'])
    if kind == 'Nasa9':
        _single_nasa9(ctx, obj, sp, model, spec['Ts'], spec['Ti'])

    # ---- arrays: E5, E3
    for arr in spec['arrays']:
        n = len(arr['T'])
        ctx.cls('tkind:%s' % arr['kind'], 'elem:%s' % arr['elem'], 'alen:%d' % n)
        if n >= 2:
            ctx.nontrivial()
        which = set()
        for T in arr['T']:
            for i, (lo, hi) in enumerate(segs):
                if lo <= T <= hi and not (kind == 'Nasa' and i == 0 and T == hi):
                    which.add(i)
                    break
        if len(which) > 1:
            ctx.cls('array:straddles_break')
        if any(float(T) in breaks_inner for T in arr['T']):
            ctx.cls('array:has_break')
        drv.e5_array(arr)

    # ---- histories on one container object changed in place; alternating containers: E5, E3, E1
    for h in spec.get('hist', []):
        ctx.cls('hist:%s' % kind)
        drv.history(h)
    if spec.get('alt'):
        drv.alternation(spec['alt'])

    # ---- temperature dtypes (narrow / unsigned integers, float32) as numpy scalars and ndarray elements
    for ent in spec.get('dt', []):
        ctx.cls('dtype:%s:%s' % (ent['dtype'], kind))
        drv.dtype_stratum(ent)

    # ---- non-default conditions (gas phase at a pressure, coverage model): relations E3, E5, E2
    if spec.get('cond'):
        _conditions(ctx, sp, kind, model, spec['cond'])

    # ---- integral forms: E2
    for T1, T2, tag in spec['ivals']:
        ctx.cls(tag)
        drv.e2_interval(float(T1), float(T2))

    # ---- NASA-9 refusal: E4
    if kind == 'Nasa9':
        for ent in spec.get('out', []):
            T, where = ent[0], ent[1]
            dist = ent[2] if len(ent) > 2 else 'far'
            ctx.cls('out:%s' % where, 'out:%s:%s' % (where, dist))
            for q in QS:
                ctx.raises('E4', (Exception,), {'class': kind, 'q': q, 'where': where, 'dist': dist, 'tkind': 'float'},
                           getattr(obj, 'get_' + q), T=float(T))
        for arr in spec.get('out_arrays', []):
            where, dist = arr.get('where', 'any'), arr.get('dist', 'far')
            ctx.cls('out:in_array', 'out_arr:%s:%s' % (where, dist))
            for q in QS:
                Tin = np.array(arr['T']) if arr['kind'] == 'ndarray' else list(arr['T'])
                ctx.raises('E4', (Exception,), {'class': kind, 'q': q, 'where': 'in_array:%s' % where, 'dist': dist,
                                                'tkind': arr['kind']},
                           getattr(obj, 'get_' + q), T=Tin)
        for lo, hi in segs:                                   # on every bound: never refused
            for T in (lo, hi):
                for q in QS:
                    r = ctx.call('E4', {'class': kind, 'q': q, 'where': 'on_bound', 'tkind': 'float'},
                                 getattr(obj, 'get_' + q), T=float(T))
                    if r is not core.NOVALUE:
                        ctx.held('E4')

    # ---- the object still answers the first question the same way (no state left behind)
    if first is not None and None not in first[1].values():
        drv.sc.clear()
        again = drv.e1_scalar(first[0], where='repeat')
        for q in QS:
            if again[q] is not None:
                ctx.check('E1', again[q] == first[1][q], {'class': kind, 'q': q, 'what': 'changed_after_use'},
                          T=first[0], first=first[1][q], again=again[q])

    # ---- edits of the live object (last: they change it)
    if spec.get('edits'):
        _edits(ctx, obj, kind, sp, spec['edits'])

"""C06  Chemkin mechanism files transcribe the model faithfully.

Workload: random well-formed mechanisms (vf/gen/mechanism.py) are built as real CatSite / Nasa
/ ChemkinReaction / Reactions objects and handed to the real writers write_gas, write_surf,
write_EA (EAs + EAg), write_tube_mole, write_T_flow -- as returned text and as files on
disk -- under random activation methods, units, formats and delimiters.  What was written is
read by an independent parser (vf/ref/chemkin_inp.py, written from the Chemkin input format)
and compared with an executable model of the mechanism:

  K1  every element / species / site / site species / bulk / reaction exactly once, in the
      right section of the right file (reaction in the gas files iff all its species are gaseous)
  K2  declared counts (Number of reactions, Number of nonzero species, run columns, run
      numbers, values per line) equal the entries that follow
  K3  every printed number equals the model value to the printed precision and is printed
      with the requested format: A (kB/h / sden_eff^(n_surf-1), or sticking
      coefficient), beta, Ea (requested activation quantity in the requested unit from the
      species' own getters), SDEN, occupancy, bulk density, mole fractions, T/P/Q/abyv
  K4  pmutt.io.chemkin.read_reactions on the written gas.inp / surf.inp gives the same
      reactant / product names and stoichiometry

Probes on the anchored functions prove the mechanism ran and run online invariants.
"""
import math
import os
import random
import traceback

from vf import core
from vf.gen import mechanism as MG
from vf.ref import chemkin_inp as CK
from vf.ref import units as U

ID = 'C06'
N = {'quick': 2200, 'thorough': 100000}
NT_RULE = ('case = random well-formed mechanism (1-3 CatSites, 2-30 Nasa species G/S/bulk, 1-40 '
           'ChemkinReactions of kinds gas/ads/ads_plain/ads_diss/des/surf/diff, with/without TS, '
           'stoichiometry 1-3) + 1-8 condition runs + writer options (act/ads method, unit, T, P, formats, '
           'delimiters, text/disk), drawn per case index from a seeded PRNG after directed boundary cases; '
           'non-trivial = mechanism with >=1 gas-phase and >=1 surface reaction, or >=2 catalyst sites; '
           'distinct = distinct canonical JSON of the case')
REQUIRED_ORACLES = ['K1', 'K2', 'K3', 'K4']      # INV (online invariants at probes) is best-effort
ACT = MG.ACT_METHODS
REQUIRED_CLASSES = (['rx:' + k for k in ('gas', 'ads', 'ads_plain', 'ads_diss', 'des', 'surf', 'diff', 'er')]
                    + ['ts:yes', 'ts:no', 'nu:1', 'nu:2', 'nu:3', 'sites:1', 'sites:2', 'sites:3',
                       'profile:mixed', 'profile:gas', 'profile:surface', 'profile:tiny',
                       'runs:1', 'runs:8', 'dest:text', 'dest:disk', 'call:defaults',
                       'Eact:all_ts', 'Eact:missing_ts', 'clamp:zero', 'clamp:ts', 'clamp:rxn',
                       'clamp:E_no_ts:zero', 'clamp:E_no_ts:rxn',
                       'hist:site_density', 'hist:density', 'hist:sticking', 'hist:beta', 'hist:poly:inplace',
                       'hist:poly:assign', 'hist:site_density:A_depends', 'hist:append_to_caller_list',
                       'reactions_arg:list', 'reactions_arg:tuple', 'reactions_arg:generator',
                       'x:all_zero_species', 'x:all_zero_single_run',
                       'A:stick', 'A:gas', 'A:surf', 'A:ts_entropy', 'A:multi_site', 'A:no_ts', 'A:ts_G_method',
                       'n_surf:1', 'n_surf:2', 'n_surf:>=3',
                       'carry:er_reactant', 'carry:ads_reactant', 'carry:product', 'carry:n_sites',
                       'carry:density_would_differ', 'K4:one_char_lhs', 'elements:negative_count', 'elements:zero_count',
                       'elements:zero_everywhere', 'elements:E_last_mention_negative',
                       'elements:E_last_mention_positive', 'elements:negative_on_surface_species',
                       'species_order:creation', 'species_order:shuffled', 'species_order:reversed',
                       'sden:min', 'sden:max', 'sden:mean', 'sden:sum', 'mw:on', 'mw:off',
                       'site_objs:shared', 'site_objs:copies', 'build:ctor', 'build:from_string',
                       'x:unspecified', 'T:at_T_mid', 'kw:P', 'site_with_>1_species',
                       'n_rxn:1', 'n_rxn:30-40', 'n_species:2', 'n_species:30']
                    + ['surf.act:' + m for m in ACT] + ['surf.ads:' + m for m in ACT]
                    + ['gas.act:' + m for m in ACT] + ['EA.act:' + m for m in ACT]
                    + ['EA.ads:' + m for m in ACT])
# Only the entry points this check calls itself are required to fire.  Probes on helpers and getters
# behind them (_is_gas_phase, _get_n_surf, get_A, get_*_act, _write_reaction_lines, _write_column_line,
# to_string) stay installed as telemetry / online invariants: a refactor that stops calling one of them
# must be decided by the boundary oracles, not turn the run inconclusive.  The classes the probe
# branches used to stand for (n_surf, TS / entropy situation of A) are derived from the case spec.
REQUIRED_PROBES = ['write_gas', 'write_surf', 'write_EA', 'write_tube_mole', 'write_T_flow', 'read_reactions']
REQUIRED_BRANCHES = []
ASSUMPTIONS = [
    'mechanisms are chemically well formed: element and site balanced, a surface step has surface species on '
    'both sides, phase letters are upper-case G / S (bulk species carry S and are recognised through '
    'CatSite.bulk_specie as in the bundled example), bulk species names are distinct between sites; gas species '
    'may carry a cat_site / n_sites (records made from one table) and stay gas species: n_surf and the effective '
    'site density count only phase-S non-bulk reactants, for every sden_operation and also when the carried site is '
    'foreign to the step; element counts '
    'may be negative (Chemkin electron element E: cation E -1, anion E +1, electron species E) or zero '
    '(zero-filled columns): ELEMENTS must list every key with a non-zero count in some species exactly once, a '
    'key that is zero in every species may be listed once or left out; species records in creation, reversed '
    'or shuffled order; '
    'species names contain no blank + = ! / \' - and do not start with a digit; nasa_species passed to the '
    'writers = all non-transition-state species',
    'model A: kB/h (as the file header documents; no activation-entropy factor), divided by '
    'sden_eff^(n_surf-1) for surface steps, n_surf = number of non-bulk surface reactant molecules, sden_eff = '
    'numpy <sden_operation> over the site densities of the non-bulk surface reactants (one entry per '
    'molecule); sticking coefficient for is_adsorption steps',
    'model Ea: E = H(TS)-H(reactants) (+1-del_m, del_m=1), H / G = max(0, X(TS)-X(reactants), X(products)-'
    'X(reactants)) (without TS: max(0, X(products)-X(reactants))), dimensional = * R[unit] * T, all from the '
    'species\' own get_HoRT/get_SoR/get_GoRT at the call\'s T (and P when given); an E method on a step '
    'without transition state gives max(0, H(products)-H(reactants)) (+1-del_m, del_m=1)',
    'histories: after the first round of writer calls (random order) the SAME objects are edited through their '
    'public attributes (CatSite.site_density / density, sticking_coeff, beta, a species\' a_low/a_high in place '
    'or by assignment), the list that was handed to Reactions gets another reaction appended by its owner, and '
    'the files are written again: they must describe the edited model and must not contain the appended step; '
    'Reactions is built from a list, a tuple or a one-shot generator (any iterable is accepted by the class)',
    'numbers: token must be re-producible by the requested format string and |token - model| <= half a unit '
    'of the last printed place (+ 1e-4 relative for computed quantities: CODATA-2018 constants of '
    'vf/ref/units.py vs. pMuTT\'s table; + 1e-9 for transcribed ones)',
    'K4 includes reaction lines whose whole left-hand side is one character (H=HP+E)',
    'K4 compares, per reaction, the reactant list and the first len(products) entries of the product list '
    'returned by read_reactions; surplus "products" are reported separately (what=arrhenius_columns) from a '
    'mismatch of the genuine ones (what=mismatch)',
    'not asserted (telemetry in evidence.extra): gas.inp carries no Ea unit keyword, alignment of the run-number '
    'comment line, write_T_flow(conditions=...) being ignored, AttributeError -> Ea=0 on a species whose getter '
    'raises AttributeError (outside the Nasa-only quantifier)']
TOL_COMPUTED = 1e-4
JUDGE_ONE_CHAR_LHS = True      # read_reactions must read 'H=HP+E ...' (whole left-hand side one character)
TOL_COPIED = 1e-9
KB_H = U.KB / U.H
UNITS = ['kcal/mol', 'cal/mol', 'kJ/mol', 'J/mol', 'eV']
DEFAULTS = {
    'gas': dict(T=None, P=None, act='get_E_act', ads=None, unit='kcal/mol', ff=' .3E', sf='.0f', cd='  ',
                sd='+', rd='=', newline='\n', mw=True, sden=None),
    'surf': dict(T=None, P=None, act='get_E_act', ads='get_H_act', unit='kcal/mol', ff=' .3E', sf='.0f',
                 cd='  ', sd='+', rd='=', newline='\n', mw=True, sden='min'),
    'EA': dict(act='get_EoRT_act', ads='get_HoRT_act', unit=None, ff=' .2E', sf='.0f', cd='  ', sd='+',
               rd='<=>', newline='\n'),
}


# ======================================================================== generator
def _fmt_choices(rng, kind):
    if kind == 'arr':
        return rng.choice([' .3E', ' .3E', ' .2E', '.4E', ' .6e', '.3E', ' .5g', ' .8E'])
    if kind == 'EA':
        return rng.choice([' .2E', ' .2E', ' .4E', '.3e', ' .6g'])
    if kind == 'tube':
        return rng.choice([' .3f', ' .3f', '.4f', ' .2E', ' .6f'])
    return rng.choice(['.3E', '.3E', ' .4E', '.2f', ' .6e'])


def _delims(rng):
    return {'cd': rng.choice(['  ', '  ', ' ', '\t', '    ']),
            'sd': rng.choice(['+', '+', '+', ' + ']),
            'newline': rng.choice(['\n', '\n', '\r\n']),
            'sf': rng.choice(['.0f', '.0f', '.1f', '.2f'])}


def _pick_act(rng, mech, prefer_E=None):
    """E methods only make sense when every step has a TS; stratify both situations."""
    all_ts = all(r['ts'] for r in mech['reactions'])
    if prefer_E is None:
        prefer_E = all_ts and rng.random() < 0.5
    if prefer_E:
        return rng.choice(['get_E_act', 'get_EoRT_act'])
    return rng.choice(ACT)


def gen_calls(rng, mech, cond):
    T_pool = cond['T'] + [s['T_mid'] for s in mech['species']][:3]

    def arr_call(file, disk, **force):
        c = dict(DEFAULTS[file])
        c.update(_delims(rng))
        c.update(act=_pick_act(rng, mech), unit=rng.choice(UNITS), ff=_fmt_choices(rng, 'arr'),
                 rd=rng.choice(['=', '=', '<=>', '=>', ' = ', ' <=> ']),
                 T=rng.choice([None, rng.choice(T_pool), round(rng.uniform(300, 1500), 2)]),
                 P=rng.choice([None, None, round(rng.uniform(0.05, 50), 4)]), disk=disk, defaults=False)
        if file == 'surf':
            c.update(ads=_pick_act(rng, mech), mw=rng.random() < 0.6,
                     sden=rng.choice(['min', 'min', 'max', 'mean', 'sum']))
        c.update(force)
        return c

    def ea_call(gas, disk, **force):
        c = dict(DEFAULTS['EA'])
        c.update(_delims(rng))
        act = _pick_act(rng, mech)
        ads = _pick_act(rng, mech)
        c.update(act=act, ads=ads, ff=_fmt_choices(rng, 'EA'), rd=rng.choice(['<=>', '<=>', '=', ' <=> ']),
                 unit=rng.choice(UNITS) if ('oRT' not in act or 'oRT' not in ads) else None,
                 gas=gas, disk=disk, defaults=False)
        c.update(force)
        return c
    calls = {'gas': [arr_call('gas', True), arr_call('gas', False)],
             'surf': [arr_call('surf', True), arr_call('surf', False), arr_call('surf', False)],
             'EA': [ea_call(False, True), ea_call(True, True), ea_call(False, False), ea_call(True, False)],
             'tube': dict(_delims(rng), ff=_fmt_choices(rng, 'tube')),
             'tflow': dict(_delims(rng), ff=_fmt_choices(rng, 'tflow'))}
    return calls


def _case(rng, n_runs=None, **kw):
    mech = MG.gen_mechanism(rng, **kw)
    cond = MG.gen_conditions(rng, mech, n_runs=n_runs)
    return _finish(rng, {'mech': mech, 'cond': cond, 'calls': gen_calls(rng, mech, cond),
                         'site_objs': rng.choice(['shared', 'shared', 'copies'])})


def _finish(rng, spec):
    """history part of a case: order of the first round, edits, how Reactions is fed"""
    spec['history'] = MG.gen_history(rng, spec['mech'])
    spec['order_seed'] = rng.randrange(10 ** 6)
    spec['reactions_arg'] = rng.choice(['list', 'list', 'list', 'generator', 'tuple'])
    return spec


def generate(rng, tier):
    return _case(rng)


def _default_call(file, **kw):
    c = dict(DEFAULTS[file], disk=False, defaults=True)
    c.update(kw)
    return c


def directed(tier):
    D = []
    # 0: pinned witness of pre-finding (c): default act_method_name on a mechanism without TS
    rng = random.Random('C06-d0')
    s = _case(rng, profile='mixed', ts_mode='none', n_sites=1, n_rxn=6, max_species=12)
    s['calls']['gas'] = [_default_call('gas'), _default_call('gas', act='get_G_act', disk=True)]
    s['calls']['surf'] = [_default_call('surf'), _default_call('surf', act='get_G_act', disk=True)]
    s['calls']['EA'] = [_default_call('EA', gas=False), _default_call('EA', gas=True),
                        _default_call('EA', gas=False, act='get_GoRT_act', disk=True),
                        _default_call('EA', gas=True, act='get_GoRT_act', disk=True)]
    D.append(s)
    # 1: every step has a TS: the defaults work, E methods give values
    rng = random.Random('C06-d1')
    s = _case(rng, profile='mixed', ts_mode='all', n_sites=2, n_rxn=10, max_species=20)
    s['calls']['gas'] = [_default_call('gas', disk=True), _default_call('gas', act='get_EoRT_act')]
    s['calls']['surf'] = [_default_call('surf', disk=True), _default_call('surf', act='get_EoRT_act', ads='get_E_act')]
    s['calls']['EA'] = [_default_call('EA', gas=False, disk=True), _default_call('EA', gas=True, disk=True),
                        _default_call('EA', gas=False, act='get_E_act', ads='get_EoRT_act', unit='kJ/mol'),
                        _default_call('EA', gas=True, act='get_E_act', unit='eV')]
    D.append(s)
    # 2: upper bounds: 3 sites, 30 species, 40 reactions, 8 runs
    for j in range(60):
        rng = random.Random('C06-d2-%d' % j)
        mech = MG.gen_mechanism(rng, profile='mixed', ts_mode='mixed', n_sites=3, n_rxn=40, max_species=30)
        if len(mech['reactions']) == 40 and sum(1 for x in mech['species'] if x['role'] != 'ts') == 30:
            break
    cond = MG.gen_conditions(rng, mech, n_runs=8)
    D.append(_finish(rng, {'mech': mech, 'cond': cond, 'calls': gen_calls(rng, mech, cond), 'site_objs': 'copies'}))
    # 3: lower bounds: 2 species, 1 reaction, 1 run
    rng = random.Random('C06-d3')
    mech = MG.gen_mechanism(rng, profile='gas', ts_mode='none', n_sites=1, n_rxn=1, max_species=2)
    cond = MG.gen_conditions(rng, mech, n_runs=1)
    names = [x['name'] for x in mech['species'] if x['role'] != 'ts']
    cond['mole_fracs'] = [{names[0]: 1.0, names[1]: 0.0}]          # listed with exactly 0 in the only run
    D.append(_finish(rng, {'mech': mech, 'cond': cond, 'calls': gen_calls(rng, mech, cond), 'site_objs': 'shared'}))
    # 4-9: every act method as act and as ads on a mixed TS / no-TS mechanism, all three files
    for i, m in enumerate(ACT):
        rng = random.Random('C06-d4-%d' % i)
        ts_mode = 'all' if m.startswith('get_E') else 'mixed'
        s = _case(rng, profile='mixed', ts_mode=ts_mode, n_sites=2, n_rxn=9, max_species=18)
        for c in s['calls']['gas'] + s['calls']['surf']:
            c['act'] = m
        for c, a in zip(s['calls']['surf'], [m, ACT[(i + 2) % 6] if ts_mode == 'mixed' else 'get_E_act', m]):
            c['ads'] = a
        for c in s['calls']['EA']:
            c['act'] = m
            c['ads'] = m
            c['unit'] = None if 'oRT' in m else 'kcal/mol'
        D.append(s)
    # 10: surface only, 11: gas only, 12: tiny
    for j, prof in enumerate(['surface', 'gas', 'tiny']):
        rng = random.Random('C06-d10-%d' % j)
        D.append(_case(rng, profile=prof))
    # 13: telemetry probe for pre-finding (c2) (AttributeError swallowed as Ea = 0); no verdicts
    rng = random.Random('C06-d13')
    s = _case(rng, profile='surface', ts_mode='none', n_sites=1, n_rxn=3, max_species=10)
    s['probe'] = 'swallow'
    D.append(s)
    # 14: site-density sweep on the same objects (every edit kind, list handed to Reactions keeps growing)
    rng = random.Random('C06-d14')
    s = _case(rng, profile='surface', ts_mode='mixed', n_sites=2, n_rxn=10, max_species=16)
    s['reactions_arg'] = 'list'
    s['site_objs'] = 'shared'
    ads = [i for i, r in enumerate(s['mech']['reactions']) if r['is_adsorption']]
    s['history'] = [{'op': 'site_density', 'site': 0, 'value': 4.4385e-10},
                    {'op': 'site_density', 'site': 1, 'value': 7.5e-09},
                    {'op': 'density', 'site': 0, 'value': 7.77},
                    {'op': 'beta', 'rx': 0, 'value': -0.75},
                    {'op': 'poly', 'species': s['mech']['species'][0]['name'], 'dH': 2500.0, 'dS': -1.5, 'how': 'inplace'},
                    {'op': 'poly', 'species': s['mech']['species'][1]['name'], 'dH': -1800.0, 'dS': 0.5, 'how': 'assign'}]
    if ads:
        s['history'].append({'op': 'sticking', 'rx': ads[0], 'value': 0.0625})
    D.append(s)
    # 17-19: records from one table (every gas species carries the single site), Eley-Rideal and plain
    # adsorption steps, ions with the electron element E, zero-filled columns; the three record orders
    for j, order in enumerate(['creation', 'reversed', 'shuffled']):
        for t in range(80):
            rng = random.Random('C06-d17-%d-%d' % (j, t))
            s = _case(rng, profile='mixed', ts_mode='mixed', n_sites=1, n_rxn=14, max_species=22, carry='table',
                      zero_fill=['all', None, 'some'][j], species_order=order)
            ks = {r['kind'] for r in s['mech']['reactions']}
            if {'er', 'ads_plain', 'ads'} <= ks and any(x['elements'].get('E', 0) < 0 for x in s['mech']['species']
                                                       if x['role'] == 'ads'):
                break
        for c in s['calls']['surf']:
            c['sden'] = ['min', 'max', 'sum'][j]
        D.append(s)
    # 20: an ionisation step whose whole left-hand side is one character (H=HP+E), gas.inp on disk -> K4
    for t in range(200):
        rng = random.Random('C06-d20-%d' % t)
        s = _case(rng, profile='gas', ts_mode='mixed', n_sites=1, n_rxn=8, max_species=14)
        if any(len(r['reactants']) == 1 and r['reactants'][0][1] == 1 and len(r['reactants'][0][0]) == 1
               for r in s['mech']['reactions']):
            break
    D.append(s)
    # 15: Reactions fed from a one-shot generator, 16: from a tuple
    for j, arg in enumerate(['generator', 'tuple']):
        rng = random.Random('C06-d15-%d' % j)
        s = _case(rng, profile='mixed', n_sites=1, n_rxn=8, max_species=14)
        s['reactions_arg'] = arg
        D.append(s)
    return D


# ======================================================================== probes
_P = {'ctx': None}


def install_probes(pr, ctx):
    _P['ctx'] = ctx

    def R():
        from pmutt import reaction
        return reaction

    def IO():
        from pmutt.io import chemkin
        return chemkin

    def a_call(label, loc):
        s = loc.get('self')
        ts = getattr(s, 'transition_state', None) is not None
        ent = loc.get('include_entropy')
        ctx.branch('get_A:no_ts' if not ts else ('get_A:ts+entropy' if ent else 'get_A:ts_no_entropy'))
        return None

    def a_ret(label, ret, snap):
        try:
            ok = float(ret) > 0.0 and math.isfinite(float(ret))
        except Exception:
            ok = False
        ctx.check('INV', ok, {'at': 'get_A', 'what': 'positive_finite'}, ret=repr(ret)[:60])

    def n_ret(label, ret, snap):
        ctx.branch('n_surf=%d' % ret if ret in (0, 1) else 'n_surf>=2')
        ctx.check('INV', isinstance(ret, (int, float)) and ret >= 0 and float(ret) == int(ret),
                  {'at': '_get_n_surf', 'what': 'non_negative_integer'}, ret=repr(ret)[:60])

    def g_ret(label, ret, snap):
        ctx.branch('gas_phase=%s' % bool(ret))

    def act_ret(label, ret, snap):
        try:
            ok = float(ret) >= 0.0
        except Exception:
            ok = False
        ctx.check('INV', ok, {'at': label, 'what': 'clamped_non_negative'}, ret=repr(ret)[:60])

    C = lambda: R().ChemkinReaction
    pr.watch(lambda: C()._is_gas_phase, 'ChemkinReaction._is_gas_phase', on_ret=g_ret)
    pr.watch(lambda: C()._get_n_surf, 'ChemkinReaction._get_n_surf', on_ret=n_ret)
    pr.watch(lambda: C().get_A, 'ChemkinReaction.get_A', on_call=a_call, on_ret=a_ret)
    for m in ('get_HoRT_act', 'get_GoRT_act', 'get_H_act', 'get_G_act'):
        pr.watch(lambda m=m: getattr(C(), m), 'ChemkinReaction.' + m, on_ret=act_ret)
    pr.watch(lambda: R().Reaction.get_E_act, 'Reaction.get_E_act')
    pr.watch(lambda: R().Reaction.get_EoRT_act, 'Reaction.get_EoRT_act')
    pr.watch(lambda: R().Reaction.to_string, 'Reaction.to_string')
    pr.watch(lambda: IO()._write_reaction_lines, '_write_reaction_lines')
    pr.watch(lambda: IO()._write_column_line, '_write_column_line')
    pr.watch(lambda: IO().read_reactions, 'read_reactions')
    for f in ('write_gas', 'write_surf', 'write_EA', 'write_tube_mole', 'write_T_flow'):
        pr.watch(lambda f=f: getattr(IO(), f), f)


# ======================================================================== model
class Model:
    """Executable model of the mechanism: everything the files must say, derived from the
    spec (structure) and from the species' own getters (thermochemistry)."""

    def __init__(self, spec, objs):
        mech = spec['mech']
        self.mech = mech
        self.objs = objs
        self.sp = {s['name']: s for s in mech['species']}
        self.sites = mech['sites']
        self.rx = mech['reactions']
        self.is_gas = [all(self.sp[n]['role'] in ('gas', 'inert') for n, _ in r['reactants'] + r['products'])
                       for r in self.rx]
        self.key = [CK.canon([(n, float(v)) for n, v in r['reactants']],
                             [(n, float(v)) for n, v in r['products']]) for r in self.rx]
        self._cache = {}

    # ---- thermochemistry through the species' own getters
    def _q(self, name, q, T, P):
        k = (name, q, T, P)
        if k not in self._cache:
            kw = {'T': T}
            if P is not None:
                kw['P'] = P
            self._cache[k] = float(getattr(self.objs['species'][name], 'get_' + q)(**kw))
        return self._cache[k]

    def state(self, items, q, T, P):
        vals = [nu * self._q(n, q, T, P) for n, nu in items]
        return math.fsum(vals), math.fsum(abs(v) for v in vals)

    def Ea(self, i, method, T, P, unit):
        """-> (value | None, branch, cancellation scale)"""
        r = self.rx[i]
        short = method[4:-4]                       # E, EoRT, H, HoRT, G, GoRT
        q = {'E': 'HoRT', 'H': 'HoRT', 'G': 'GoRT'}[short[0]]
        R0, sR = self.state(r['reactants'], q, T, P)
        P0, sP = self.state(r['products'], q, T, P)
        scale = sR + sP
        T0 = None
        if r['ts']:
            T0, sT = self.state([[r['ts'], 1]], q, T, P)
            scale += sT
        if short[0] == 'E':
            if T0 is None:
                # no transition state: the barrier is the non-negative reaction enthalpy (+ 1 - del_m, del_m = 1)
                val, branch = max((0.0, 'E_no_ts:zero'), (P0 - R0, 'E_no_ts:rxn'), key=lambda t: t[0])
            else:
                val, branch = T0 - R0, 'ts'
        else:
            cands = [(0.0, 'zero'), (P0 - R0, 'rxn')]
            if T0 is not None:
                cands.append((T0 - R0, 'ts'))
            val, branch = max(cands, key=lambda t: t[0])
        if not short.endswith('oRT'):
            f = U.R_in(unit + '/K') * T
            val *= f
            scale *= f
        return val, branch, scale

    def A(self, i, act, T, P, sden):
        """-> (value, kind)"""
        r = self.rx[i]
        if r['is_adsorption']:
            return float(r['sticking_coeff']), 'stick'
        A = KB_H
        kind = 'gas' if self.is_gas[i] else 'surf'
        if not self.is_gas[i]:
            dens = []
            for n, nu in r['reactants']:
                s = self.sp[n]
                if s['role'] in ('ads', 'vacant'):
                    dens += [self.sites[s['site']]['site_density']] * int(nu)
            n_surf = len(dens)
            if n_surf:
                eff = {'min': min, 'max': max, 'sum': math.fsum,
                       'mean': lambda d: math.fsum(d) / len(d)}[sden](dens)
                A /= eff ** (n_surf - 1)
        return A, kind

    def n_surf(self, i):
        """number of reactant molecules that sit on a site (phase S on a CatSite, not the bulk species)"""
        return int(sum(nu for n, nu in self.rx[i]['reactants'] if self.sp[n]['role'] in ('ads', 'vacant')))

    def multi_site(self, i):
        ks = {self.sp[n]['site'] for n, _ in self.rx[i]['reactants'] if self.sp[n]['role'] in ('ads', 'vacant')}
        return len(ks) > 1


# ======================================================================== helpers
def _where(e):
    for fr in reversed(traceback.extract_tb(e.__traceback__)):
        if '/pmutt/' in fr.filename:
            return fr.name
    return ''


def _call(ctx, oracle, mech, fn, *a, **k):
    """Call into pMuTT; an exception is a violation of `oracle` (nothing was written);
    mech gets exc = type and at = innermost pMuTT function."""
    try:
        return fn(*a, **k)
    except Exception as e:                               # noqa
        m = dict(mech)
        m['exc'] = type(e).__name__
        m['at'] = _where(e)
        ctx.fail(oracle, m, message=str(e)[:300], where=core._tb_where(e))
        return core.NOVALUE


def _num(ctx, tok, want, fmt, mech, tol, scale=None, **detail):
    """K3: token printed with `fmt` and equal to the model value to the printed precision."""
    try:
        got = CK.to_float(tok)
        q = CK.quantum(tok)
    except (ValueError, TypeError):
        return ctx.fail('K3', dict(mech, what='not_a_number'), token=tok, want=want, **detail)
    if not math.isfinite(want) or abs(want) > 1e290:
        ctx.inconc('K3', 'model value not finite', want=repr(want), **detail)
        return True
    if fmt is not None:
        again = ('{:%s}' % fmt).format(got).strip()
        if again != tok:
            return ctx.fail('K3', dict(mech, what='format'), token=tok, reformatted=again, fmt=fmt, **detail)
    excess = max(0.0, abs(got - want) - q * (1 + 1e-9))
    sc = max(abs(want), abs(got), scale or 0.0, 1e-300)
    return ctx.close('K3', excess / sc, 0.0, tol, dict(mech, what='value'), scale=1.0, token=tok,
                     model=want, fmt=fmt, **detail)


def _multiset(ctx, mech, got, want, **detail):
    """K1: every wanted entity exactly once, nothing else."""
    ok = True
    seen = {}
    for g in got:
        seen[g] = seen.get(g, 0) + 1
    for w in want:
        n = seen.get(w, 0)
        if n == 0:
            ok = ctx.fail('K1', dict(mech, what='missing'), entity=str(w), written=[str(x) for x in got][:40], **detail)
        elif n > 1:
            ok = ctx.fail('K1', dict(mech, what='duplicate'), entity=str(w), times=n, **detail)
        else:
            ctx.held('K1')
    ws = set(want)
    for g in seen:
        if g not in ws:
            ok = ctx.fail('K1', dict(mech, what='extra'), entity=str(g), **detail)
    if not want and not seen:
        ctx.held('K1')
    return ok


def _problems(ctx, mech, parsed):
    if parsed['problems']:
        ctx.fail('K1', dict(mech, field='format', what='malformed'), problems=parsed['problems'][:6])
        return False
    ctx.held('K1')
    return True


def _expr_ok(ctx, mech, entry, rd):
    """the written delimiter is the requested one"""
    ctx.check('K1', entry['delim'] == rd.strip(), dict(mech, field='reaction', what='delimiter'),
              written=entry['delim'], requested=rd)


def _match_reactions(ctx, M, mech, entries, want_gas):
    """K1 for a reaction list: -> [(entry, reaction index)] of the matched ones."""
    index = {}
    for i, k in enumerate(M.key):
        index.setdefault(k, []).append(i)
    want = [i for i in range(len(M.rx)) if M.is_gas[i] == want_gas]
    count = {}
    pairs = []
    for e in entries:
        k = CK.canon(e['lhs'], e['rhs'])
        if k not in index:
            ctx.fail('K1', dict(mech, field='reaction', what='extra'), written=e['expr'])
            continue
        i = index[k][0]
        if M.is_gas[i] != want_gas:
            ctx.fail('K1', dict(mech, field='reaction', what='wrong_file', kind=M.rx[i]['kind']), written=e['expr'])
            continue
        count[i] = count.get(i, 0) + 1
        if count[i] == 1:
            pairs.append((e, i))
    for i in want:
        n = count.get(i, 0)
        if n == 1:
            ctx.held('K1')
        else:
            ctx.fail('K1', dict(mech, field='reaction', what='missing' if n == 0 else 'duplicate',
                                kind=M.rx[i]['kind']), reaction=[M.rx[i]['reactants'], M.rx[i]['products']],
                     times=n, written=[e['expr'] for e in entries][:12])
    return pairs


# ======================================================================== per-file checks
def _arrhenius(ctx, M, c, base, pairs, file):
    T = c['T'] if c['T'] is not None else 298.15
    for e, i in pairs:
        r = M.rx[i]
        has_ts = bool(r['ts'])
        _expr_ok(ctx, base, e, c['rd'])
        stick = 'STICK' in e['aux']
        ctx.check('K3', stick == bool(r['is_adsorption']), dict(base, rule='K3', field='STICK', kind=r['kind']),
                  written=e['raw'], aux=e['aux'], is_adsorption=r['is_adsorption'])
        extra_aux = [a for a in e['aux'] if a != 'STICK']
        if extra_aux:
            ctx.fail('K1', dict(base, field='reaction', what='unknown_auxiliary'), aux=extra_aux)
        # A
        A, kind = M.A(i, c['act'], T, c['P'], c['sden'] or 'min')
        ctx.cls('A:' + kind)
        ent = has_ts and kind != 'stick' and c['act'][4] != 'G'
        if ent:
            # E / H activation method on a step with a transition state: the entropy of activation is in
            # neither A (kB/h by the file's own header and DESIGN K3) nor Ea -- counted, not judged
            ctx.extra['A_is_kB_over_h_although_TS_and_Ea_is_E_or_H'] = \
                ctx.extra.get('A_is_kB_over_h_although_TS_and_Ea_is_E_or_H', 0) + 1
        if kind != 'stick':
            ctx.cls('A:no_ts' if not has_ts else ('A:ts_G_method' if c['act'][4] == 'G' else 'A:ts_entropy'))
        ms = kind == 'surf' and M.multi_site(i)
        if ms:
            ctx.cls('A:multi_site')
        mA = dict(base, rule='K3', field='A', kind=kind, has_ts=has_ts, multi_site=ms)
        if kind == 'surf':
            mA['sden_op'] = c['sden']
            n_surf = M.n_surf(i)
            ctx.cls('n_surf:%d' % n_surf if n_surf < 3 else 'n_surf:>=3')
            mA['n_surf'] = min(n_surf, 3)
        # gas species whose record carries a catalyst site (cat_site / n_sites set although phase is G)
        carried_r = [M.sp[n]['carry_site'] for n, _ in r['reactants'] if M.sp[n].get('carry_site') is not None]
        carried_p = [M.sp[n]['carry_site'] for n, _ in r['products'] if M.sp[n].get('carry_site') is not None]
        if carried_p:
            ctx.cls('carry:product')
        if any(M.sp[n].get('carry_n_sites') for n, _ in r['reactants'] + r['products']):
            ctx.cls('carry:n_sites')
        if carried_r and kind == 'stick':
            ctx.cls('carry:ads_reactant')
        if carried_r and kind == 'surf':
            # The model counts only species that sit on a site (phase S, not bulk), for the exponent and for
            # the effective density alike; a gas reactant stays a gas reactant whatever its record carries.
            # Judged for every sden_operation and for a carried site foreign to the step as well.
            own = {M.sp[n]['site'] for n, _ in r['reactants'] if M.sp[n]['role'] in ('ads', 'vacant')}
            easy = all(k in own for k in carried_r) and (c['sden'] in ('min', 'max') or
                                                          (c['sden'] == 'mean' and len(own) == 1))
            mA['gas_reactant_carries_site'] = True
            ctx.cls('carry:er_reactant')
            if not easy:
                # the carried density would change the effective density if it were (wrongly) counted
                ctx.cls('carry:density_would_differ')
                mA['carried_density_matters'] = True
        _num(ctx, e['A'], A, c['ff'], mA, TOL_COPIED if kind == 'stick' else TOL_COMPUTED, reaction=e['expr'])
        # beta
        _num(ctx, e['beta'], float(r['beta']), c['ff'], dict(base, rule='K3', field='beta'), TOL_COPIED,
             reaction=e['expr'])
        # Ea
        method = c['ads'] if r['is_adsorption'] else c['act']
        want, branch, scale = M.Ea(i, method, T, c['P'], c['unit'])
        mE = dict(base, rule='K3', field='Ea', act_method=method, has_ts=has_ts, ads=bool(r['is_adsorption']))
        ctx.cls('clamp:' + branch)
        mE['branch'] = branch
        _num(ctx, e['Ea'], want, c['ff'], mE, TOL_COMPUTED, scale=scale * 1e-9, reaction=e['expr'], T=T, P=c['P'],
             unit=c['unit'])


def _exc_mech(M, c, base, want_gas):
    """discriminating features of a refused writer call: the activation method that has no value
    to give (E method on a step without transition state), if there is one"""
    idx = [i for i in range(len(M.rx)) if M.is_gas[i] == want_gas]
    plain = [i for i in idx if not M.rx[i]['is_adsorption']]
    ads = [i for i in idx if M.rx[i]['is_adsorption']]
    base = {k: v for k, v in base.items() if k != 'dest'}      # nothing was written, to no destination
    if c['act'].startswith('get_E') and any(not M.rx[i]['ts'] for i in plain):
        return dict(base, rule='K3', field='Ea', act_method=c['act'], has_ts=False, ads=False)
    if ads and c['ads'].startswith('get_E') and any(not M.rx[i]['ts'] for i in ads):
        return dict(base, rule='K3', field='Ea', act_method=c['ads'], has_ts=False, ads=True)
    return dict(base, rule='K3', field='Ea', act_method=c['act'], has_ts=True, ads=False)


def _write(ctx, fn, kwargs, path, c, mech):
    """run a writer as text or to disk; -> text | NOVALUE"""
    if c.get('disk'):
        r = _call(ctx, 'K3', mech, fn, filename=path, **kwargs)
        if r is core.NOVALUE:
            return r
        if not os.path.exists(path):
            ctx.fail('K1', dict(mech, rule='K1', field='file', what='not_written'))
            return core.NOVALUE
        with open(path, 'rb') as f:
            raw = f.read().decode()
        nl = c.get('newline', '\n')
        if nl == '\r\n':
            ctx.check('K1', '\n' not in raw.replace('\r\n', ''), dict(mech, rule='K1', field='newline'))
        return raw
    return _call(ctx, 'K3', mech, fn, **kwargs)


def _arr_kwargs(c, file):
    kw = {}
    names = {'act': 'act_method_name', 'unit': 'act_unit', 'ff': 'float_format', 'sf': 'stoich_format',
             'cd': 'column_delimiter', 'sd': 'species_delimiter', 'rd': 'reaction_delimiter', 'newline': 'newline'}
    if file == 'surf':
        names.update({'ads': 'ads_act_method', 'mw': 'use_mw_correction', 'sden': 'sden_operation'})
    for k, n in names.items():
        if c[k] != DEFAULTS[file][k] or not c['defaults']:
            kw[n] = c[k]
    if c['T'] is not None:
        kw['T'] = c['T']
    if c['P'] is not None:
        kw['P'] = c['P']
    return kw


def check_gas(ctx, M, c, n):
    from pmutt.io import chemkin as ck
    dest = 'disk' if c['disk'] else 'text'
    base = {'file': 'gas', 'rule': 'K1', 'dest': dest}
    if c.get('hist'):
        base['hist'] = c['hist']
    ctx.cls('dest:' + dest, 'gas.act:' + c['act'])
    _cls_E(ctx, M, c, True)
    if c['defaults']:
        ctx.cls('call:defaults')
    path = os.path.join(ctx.tmpdir, 'gas_%d.inp' % n)
    kw = _arr_kwargs(c, 'gas')
    text = _write(ctx, ck.write_gas, dict(kw, nasa_species=M.objs['nasa_species'], reactions=M.objs['Reactions']),
                  path, c, _exc_mech(M, c, base, True))
    if text is core.NOVALUE:
        return None
    g = CK.parse_gas(text)
    _problems(ctx, base, g)
    ctx.check('K1', g['sections'] == ['elements', 'species', 'reactions'], dict(base, field='section', what='order'),
              sections=g['sections'])
    real = [s for s in M.mech['species'] if s['role'] != 'ts']
    # required: every element with a non-zero count (positive or negative) in at least one species handed
    # to the writer; an element whose count is zero in every species may be listed (once) or left out
    required = sorted({e for s in real for e, n in s['elements'].items() if n != 0})
    optional = {e for s in real for e in s['elements']} - set(required)
    written = [e for e in g['elements'] if e not in optional]
    _multiset(ctx, dict(base, field='elements'), written, required)
    for e in optional:
        ctx.check('K1', g['elements'].count(e) <= 1, dict(base, field='elements', what='duplicate'), entity=e)
    if optional:
        ctx.cls('elements:zero_everywhere')
    if any(n < 0 for s in real for n in s['elements'].values()):
        ctx.cls('elements:negative_count')
    if any(n < 0 for s in real if s['role'] == 'ads' for n in s['elements'].values()):
        ctx.cls('elements:negative_on_surface_species')
    if any(n == 0 for s in real for n in s['elements'].values()):
        ctx.cls('elements:zero_count')
    last_E = [s['elements']['E'] for s in real if s['elements'].get('E', 0) != 0][-1:]
    if last_E:
        ctx.cls('elements:E_last_mention_negative' if last_E[0] < 0 else 'elements:E_last_mention_positive')
    _multiset(ctx, dict(base, field='species'), g['species'],
              [s['name'] for s in real if s['role'] in ('gas', 'inert')])
    pairs = _match_reactions(ctx, M, base, g['reactions'], True)
    if g['reactions_header']:
        ctx.extra['gas_reactions_header_tokens'] = ctx.extra.get('gas_reactions_header_tokens', 0) + 1
    elif pairs and 'oRT' not in c['act']:
        ctx.extra['gas_inp_Ea_unit_not_declared'] = ctx.extra.get('gas_inp_Ea_unit_not_declared', 0) + 1
    _arrhenius(ctx, M, c, base, pairs, 'gas')
    return path if c['disk'] else None


def check_surf(ctx, M, c, n):
    from pmutt.io import chemkin as ck
    dest = 'disk' if c['disk'] else 'text'
    base = {'file': 'surf', 'rule': 'K1', 'dest': dest}
    if c.get('hist'):
        base['hist'] = c['hist']
    ctx.cls('dest:' + dest, 'surf.act:' + c['act'], 'surf.ads:' + c['ads'], 'sden:' + c['sden'],
            'mw:on' if c['mw'] else 'mw:off')
    if c['P'] is not None:
        ctx.cls('kw:P')
    if c['T'] is not None and any(abs(c['T'] - s['T_mid']) < 1e-12 for s in M.mech['species']):
        ctx.cls('T:at_T_mid')
    _cls_E(ctx, M, c, False)
    if c['defaults']:
        ctx.cls('call:defaults')
    path = os.path.join(ctx.tmpdir, 'surf_%d.inp' % n)
    kw = _arr_kwargs(c, 'surf')
    text = _write(ctx, ck.write_surf, dict(kw, reactions=M.objs['Reactions']), path, c, _exc_mech(M, c, base, False))
    if text is core.NOVALUE:
        return None
    s = CK.parse_surf(text)
    _problems(ctx, base, s)
    # expected site phases: species that occur in a reaction (TS excluded), grouped by their site
    used = []
    for r in M.rx:
        for nme, _ in r['reactants'] + r['products']:
            if nme not in used:
                used.append(nme)
    by_site = {}
    for nme in used:
        sp = M.sp[nme]
        if sp['role'] in ('ads', 'vacant'):
            by_site.setdefault(sp['site'], []).append(nme)
    want_sites = [M.sites[k]['name'] for k in by_site]
    _multiset(ctx, dict(base, field='site'), [x['name'] for x in s['sites']], want_sites)
    for k, names in by_site.items():
        if len(names) > 1:
            ctx.cls('site_with_>1_species')
        site = M.sites[k]
        blocks = [x for x in s['sites'] if x['name'] == site['name']]
        if len(blocks) != 1:
            continue
        blk = blocks[0]
        _multiset(ctx, dict(base, field='site_species'), [nm for nm, _ in blk['species']], names, site=site['name'])
        if blk['sden'] is None:
            ctx.fail('K3', dict(base, rule='K3', field='sden', what='absent'), site=site['name'])
        else:
            _num(ctx, blk['sden'], site['site_density'], '.5E', dict(base, rule='K3', field='sden'), TOL_COPIED,
                 site=site['name'])
        for nm, occ in blk['species']:
            if nm in M.sp and occ is not None:
                _num(ctx, occ, float(M.sp[nm]['n_sites']), None, dict(base, rule='K3', field='occupancy'),
                     TOL_COPIED, species=nm)
            elif nm in M.sp:
                ctx.fail('K3', dict(base, rule='K3', field='occupancy', what='absent'), species=nm)
    # a site species written under a foreign site
    for blk in s['sites']:
        for nm, _ in blk['species']:
            sp = M.sp.get(nm)
            if sp is not None and sp['site'] is not None and M.sites[sp['site']]['name'] != blk['name']:
                ctx.fail('K1', dict(base, field='site_species', what='wrong_site'), species=nm, site=blk['name'])
    bulk_written = [(nm, d) for b in s['bulks'] for nm, d in b['species']]
    _multiset(ctx, dict(base, field='bulk'), [nm for nm, _ in bulk_written], [M.sites[k]['bulk_specie'] for k in by_site])
    for nm, d in bulk_written:
        ks = [k for k in by_site if M.sites[k]['bulk_specie'] == nm]
        if ks and d is not None:
            _num(ctx, d, M.sites[ks[0]]['density'], '.1f', dict(base, rule='K3', field='density'), TOL_COPIED, bulk=nm)
        elif ks:
            ctx.fail('K3', dict(base, rule='K3', field='density', what='absent'), bulk=nm)
    if s['sites'] or s['bulks']:
        order = [x for x in s['sections'] if x in ('site', 'bulk')]
        ctx.check('K1', order == sorted(order, key=lambda x: x != 'site') and s['sections'][-1:] == ['reactions'],
                  dict(base, field='section', what='order'), sections=s['sections'])
    # reactions header
    head = s['reactions_header'] or []
    ctx.check('K3', head[:1] == ['MWON' if c['mw'] else 'MWOFF'], dict(base, rule='K3', field='MW'), header=head)
    want_unit = [] if 'oRT' in c['act'] else [c['unit'].upper()]
    ctx.check('K3', [h.upper() for h in head[1:]] == want_unit, dict(base, rule='K3', field='Ea_unit'), header=head,
              requested=c['unit'], act=c['act'])
    pairs = _match_reactions(ctx, M, base, s['reactions'], False)
    _arrhenius(ctx, M, c, base, pairs, 'surf')
    return path if c['disk'] else None


def _cls_E(ctx, M, c, want_gas):
    idx = [i for i in range(len(M.rx)) if M.is_gas[i] == want_gas]
    plain = [i for i in idx if not M.rx[i]['is_adsorption']]
    if c['act'].startswith('get_E') and plain:
        ctx.cls('Eact:all_ts' if all(M.rx[i]['ts'] for i in plain) else 'Eact:missing_ts')


def check_EA(ctx, M, c, n, cond):
    from pmutt.io import chemkin as ck
    dest = 'disk' if c['disk'] else 'text'
    file = 'EAg' if c['gas'] else 'EAs'
    base = {'file': file, 'rule': 'K1', 'dest': dest}
    if c.get('hist'):
        base['hist'] = c['hist']
    ctx.cls('dest:' + dest, 'EA.act:' + c['act'], 'EA.ads:' + c['ads'])
    _cls_E(ctx, M, c, c['gas'])
    if c['defaults']:
        ctx.cls('call:defaults')
    runs = []
    for T, P, Q, a in zip(cond['T'], cond['P'], cond['Q'], cond['abyv']):
        d = {'T': T, 'P': P, 'Q': Q, 'abyv': a}
        if c['unit'] is not None:
            d['units'] = c['unit']
        runs.append(d)
    kw = {'reactions': M.objs['Reactions'], 'conditions': [dict(d) for d in runs], 'write_gas_phase': c['gas']}
    if not c['defaults']:
        kw.update(act_method_name=c['act'], ads_act_method=c['ads'], float_format=c['ff'], stoich_format=c['sf'],
                  column_delimiter=c['cd'], species_delimiter=c['sd'], reaction_delimiter=c['rd'], newline=c['newline'])
    else:
        if c['act'] != DEFAULTS['EA']['act']:
            kw['act_method_name'] = c['act']
        if c['ads'] != DEFAULTS['EA']['ads']:
            kw['ads_act_method'] = c['ads']
    path = os.path.join(ctx.tmpdir, '%s_%d.inp' % (file, n))
    text = _write(ctx, ck.write_EA, kw, path, c, _exc_mech(M, c, base, c['gas']))
    if text is core.NOVALUE:
        return
    ea = CK.parse_EA(text)
    _problems(ctx, base, ea)
    b2 = dict(base, rule='K2')
    ctx.check('K2', ea['declared'] == len(ea['entries']), dict(b2, field='n_reactions'), declared=ea['declared'],
              entries=len(ea['entries']))
    ctx.check('K2', ea['run_header'] == list(range(1, len(runs) + 1)), dict(b2, field='run_columns'),
              header=ea['run_header'], runs=len(runs))
    ctx.check('K2', ea['eof'], dict(b2, field='EOF'))
    pairs = _match_reactions(ctx, M, base, ea['entries'], c['gas'])
    for e, i in pairs:
        r = M.rx[i]
        _expr_ok(ctx, base, e, c['rd'])
        ctx.check('K2', len(e['values']) == len(runs), dict(b2, field='n_values'), values=e['values'], runs=len(runs))
        method = c['ads'] if r['is_adsorption'] else c['act']
        for tok, d in zip(e['values'], runs):
            want, branch, scale = M.Ea(i, method, d['T'], d['P'], c['unit'])
            ctx.cls('clamp:' + branch)
            _num(ctx, tok, want, c['ff'], dict(base, rule='K3', field='Ea', act_method=method, has_ts=bool(r['ts']),
                                               ads=bool(r['is_adsorption']), branch=branch), TOL_COMPUTED,
                 scale=scale * 1e-9, reaction=e['expr'], T=d['T'], P=d['P'])


def check_tube(ctx, M, c, cond, disk):
    from pmutt.io import chemkin as ck
    dest = 'disk' if disk else 'text'
    base = {'file': 'tube_mole', 'rule': 'K1', 'dest': dest}
    if c.get('hist'):
        base['hist'] = c['hist']
    ctx.cls('dest:' + dest)
    fracs = cond['mole_fracs']
    kw = dict(mole_frac_conditions=[dict(d) for d in fracs], nasa_species=M.objs['nasa_species'],
              float_format=c['ff'], newline=c['newline'], column_delimiter=c['cd'])
    text = _write(ctx, ck.write_tube_mole, kw, os.path.join(ctx.tmpdir, 'tube_mole.inp'),
                  dict(c, disk=disk), dict(base, rule='K3', field='x'))
    if text is core.NOVALUE:
        return
    t = CK.parse_tube_mole(text)
    _problems(ctx, base, t)
    names = []
    for d in fracs:
        for k in d:
            if k not in names:
                names.append(k)
    b2 = dict(base, rule='K2')
    ctx.check('K2', t['declared'] == len(t['entries']), dict(b2, field='n_species'), declared=t['declared'],
              entries=len(t['entries']))
    ctx.check('K2', t['run_header'] == list(range(1, len(fracs) + 1)), dict(b2, field='run_columns'),
              header=t['run_header'], runs=len(fracs))
    ctx.check('K2', t['eof'], dict(b2, field='EOF'))
    _multiset(ctx, dict(base, field='species'), [e['name'] for e in t['entries']], names)
    for nm in names:
        vals = [d[nm] for d in fracs if nm in d]
        if vals and all(v == 0.0 for v in vals):
            ctx.cls('x:all_zero_species')
            if len(fracs) == 1:
                ctx.cls('x:all_zero_single_run')
    for e in t['entries']:
        sp = M.sp.get(e['name'])
        if sp is None:
            continue
        phase = 'GAS' if sp['site'] is None else M.sites[sp['site']]['name']
        ctx.check('K1', e['phase'] == phase, dict(base, field='phase'), species=e['name'], written=e['phase'], want=phase)
        ctx.check('K2', len(e['values']) == len(fracs), dict(b2, field='n_values'), values=e['values'])
        for tok, d in zip(e['values'], fracs):
            if e['name'] not in d:
                ctx.cls('x:unspecified')
            _num(ctx, tok, float(d.get(e['name'], 0.0)), c['ff'], dict(base, rule='K3', field='x'), TOL_COPIED,
                 species=e['name'])


def check_tflow(ctx, M, c, cond, disk):
    from pmutt.io import chemkin as ck
    dest = 'disk' if disk else 'text'
    base = {'file': 'T_flow', 'rule': 'K1', 'dest': dest}
    if c.get('hist'):
        base['hist'] = c['hist']
    ctx.cls('dest:' + dest)
    kw = dict(T=list(cond['T']), P=list(cond['P']), Q=list(cond['Q']), abyv=list(cond['abyv']),
              float_format=c['ff'], newline=c['newline'], column_delimiter=c['cd'])
    text = _write(ctx, ck.write_T_flow, kw, os.path.join(ctx.tmpdir, 'T_flow.inp'), dict(c, disk=disk),
                  dict(base, rule='K3', field='T'))
    if text is core.NOVALUE:
        return
    t = CK.parse_T_flow(text)
    _problems(ctx, base, t)
    n = len(cond['T'])
    ctx.check('K1', len(t['runs']) == n, dict(base, field='run', what='count'), written=len(t['runs']), runs=n)
    ctx.check('K2', [r['run'] for r in t['runs']] == list(range(1, len(t['runs']) + 1)),
              dict(base, rule='K2', field='run_no'), written=[r['run'] for r in t['runs']])
    ctx.check('K2', t['eof'], dict(base, rule='K2', field='EOF'))
    for j, r in enumerate(t['runs'][:n]):
        if len(r['values']) != 4:
            continue
        for q, tok in zip(('T', 'P', 'Q', 'abyv'), r['values']):
            _num(ctx, tok, float(cond[q][j]), c['ff'], dict(base, rule='K3', field=q), TOL_COPIED, run=j + 1)


def check_K4(ctx, M, path, file, text_reactions):
    """pMuTT's own reader on a file pMuTT wrote."""
    from pmutt.io import chemkin as ck
    base = {'file': file, 'rule': 'K4'}
    one_char = [e for e in text_reactions if len(e['expr'].split('=')[0].rstrip('<')) == 1]
    if one_char:
        ctx.cls('K4:one_char_lhs')           # 'H=HP+E ...': whole left-hand side is one character
    out = _call(ctx, 'K4', dict(base, field='read', species_arg=False), ck.read_reactions, path)
    if out is not core.NOVALUE:
        ok = isinstance(out, tuple) and len(out) == 5
        ctx.check('K4', ok, dict(base, field='return_shape', species_arg=False), got=repr(out)[:200])
        if ok:
            _, reac, rst, prod, pst = out
            ctx.check('K4', len(reac) == len(text_reactions), dict(base, field='count'), read=len(reac),
                      written=len(text_reactions))
            for j, e in enumerate(text_reactions[:len(reac)]):
                want_l = [(n, int(v)) for n, v in e['lhs']]
                want_r = [(n, int(v)) for n, v in e['rhs']]
                got_l = list(zip(reac[j], rst[j]))
                got_r = list(zip(prod[j], pst[j]))
                ctx.check('K4', got_l == want_l, dict(base, field='reactants', what='mismatch'), read=got_l,
                          written=e['expr'])
                head = got_r[:len(want_r)]
                if head and head[-1] != want_r[-1] and head[-1][1] == want_r[-1][1] and \
                        head[-1][0][:len(want_r[-1][0]) + 1] in (want_r[-1][0] + '\t',):
                    # last genuine product glued to the first Arrhenius column by a tab delimiter:
                    # the same surplus-column defect, not a wrong species
                    head = head[:-1] + [want_r[-1]]
                    got_r = got_r + [('<glued>', 0)]
                if head != want_r:
                    ctx.fail('K4', dict(base, field='products', what='mismatch'), read=got_r, written=e['expr'])
                elif len(got_r) > len(want_r):
                    ctx.fail('K4', dict(base, field='products', what='arrhenius_columns'), read=got_r,
                             written=e['raw'])
                else:
                    ctx.held('K4')
    # with species= : objects of the species come back
    allsp = list(M.objs['species'].values())
    out = _call(ctx, 'K4', dict(base, field='read', species_arg=True), ck.read_reactions, path, species=allsp)
    if out is not core.NOVALUE:
        ok = isinstance(out, tuple) and len(out) == 7
        ctx.check('K4', ok, dict(base, field='return_shape', species_arg=True), got=repr(out)[:200])
        if ok:
            _, reac, robj, rst, prod, pobj, pst = out
            for j, e in enumerate(text_reactions[:len(reac)]):
                ctx.check('K4', [getattr(o, 'name', None) for o in robj[j]] == [n for n, _ in e['lhs']],
                          dict(base, field='reactant_objects', species_arg=True))
                ctx.check('K4', [getattr(o, 'name', None) for o in pobj[j]][:len(e['rhs'])] == [n for n, _ in e['rhs']],
                          dict(base, field='product_objects', species_arg=True))


# ======================================================================== telemetry probes
def _probe_swallow(spec, ctx, M):
    """Pre-finding (c2): _write_reaction_lines turns AttributeError into Ea = 0.  Not reachable
    with Nasa-only mechanisms; shown here on a species whose enthalpy getter raises
    AttributeError (telemetry only, no verdict)."""
    from pmutt.io import chemkin as ck

    class NoEnthalpy:
        """misc model that lacks the requested quantity"""
        name_j = None

        def get_HoRT(self, T):
            raise AttributeError('no enthalpy model')
    tele = ctx.extra.setdefault('prefinding_c2_AttributeError_to_Ea0', {})
    idx = [i for i in range(len(M.rx)) if not M.is_gas[i] and not M.rx[i]['is_adsorption']]
    if not idx:
        return
    name = M.rx[idx[0]]['reactants'][0][0]
    sp = M.objs['species'][name]
    old = sp.misc_models
    try:
        sp.misc_models = [NoEnthalpy()]
        raised = None
        try:
            M.objs['reactions'][idx[0]].get_H_act(units='kcal/mol', T=500.)
        except Exception as e:                            # noqa
            raised = type(e).__name__
        tele['direct_get_H_act_raises_' + str(raised)] = 1
        try:
            txt = ck.write_surf(M.objs['Reactions'], act_method_name='get_H_act', T=500.)
            s = CK.parse_surf(txt)
            zeros = [r for r in s['reactions'] if any(n == name for n, _ in r['lhs'] + r['rhs'])
                     and 'STICK' not in r['aux'] and CK.to_float(r['Ea']) == 0.0]
            tele['written_Ea_0_for_reactions_with_failing_getter'] = len(zeros)
        except Exception as e:                            # noqa
            tele['write_surf_raises_' + type(e).__name__] = 1
    finally:
        sp.misc_models = old


def _probe_tflow_conditions(ctx, cond):
    from pmutt.io import chemkin as ck
    tele = ctx.extra.setdefault('write_T_flow_conditions_argument', {})
    try:
        ck.write_T_flow(conditions=[{'T': T, 'P': P, 'Q': Q, 'abyv': a} for T, P, Q, a in
                                    zip(cond['T'], cond['P'], cond['Q'], cond['abyv'])])
        tele['accepted'] = tele.get('accepted', 0) + 1
    except Exception as e:                                # noqa
        k = 'ignored_raises_' + type(e).__name__
        tele[k] = tele.get(k, 0) + 1


# ======================================================================== driver
def run_case(spec, ctx):
    mech, cond, calls = spec['mech'], spec['cond'], spec['calls']
    rarg = spec.get('reactions_arg', 'list')
    objs = MG.build_mechanism(mech, site_objs=spec.get('site_objs', 'shared'), reactions_arg=rarg)
    ctx.cls('reactions_arg:' + rarg)
    M = Model(spec, objs)
    # pMuTT's own partition attribute against the model (K1 at object level)
    for i, r in enumerate(objs['reactions']):
        ctx.check('K1', bool(r.gas_phase) == M.is_gas[i], {'file': 'object', 'rule': 'K1', 'field': 'gas_phase',
                                                          'kind': mech['reactions'][i]['kind']})
    # classes
    kinds = {r['kind'] for r in mech['reactions']}
    ctx.cls(*['rx:' + k for k in kinds])
    ctx.cls('species_order:' + mech.get('species_order', 'creation'))
    ctx.cls('profile:' + mech['profile'], 'sites:%d' % len(mech['sites']), 'site_objs:' + spec.get('site_objs', 'shared'))
    for r in mech['reactions']:
        ctx.cls('ts:yes' if r['ts'] else 'ts:no', 'build:' + r['build'])
        for _, nu in r['reactants'] + r['products']:
            ctx.cls('nu:%d' % nu)
    ctx.cls('runs:%d' % len(cond['T']))
    ctx.nontrivial((any(M.is_gas) and not all(M.is_gas)) or len(mech['sites']) >= 2)
    n_real = sum(1 for s in mech['species'] if s['role'] != 'ts')
    nr = len(mech['reactions'])
    ctx.cls('n_rxn:1' if nr == 1 else ('n_rxn:2-9' if nr < 10 else ('n_rxn:10-29' if nr < 30 else 'n_rxn:30-40')))
    ctx.cls('n_species:2' if n_real == 2 else ('n_species:3-29' if n_real < 30 else 'n_species:30'))

    if spec.get('probe') == 'swallow':
        _probe_swallow(spec, ctx, M)
        _probe_tflow_conditions(ctx, cond)

    def do(task, M, tag=None):
        kind, n = task
        if kind in ('gas', 'surf', 'EA'):
            c = calls[kind][n]
            if tag:
                c = dict(c, disk=False, hist=tag)
        if kind == 'gas':
            path = check_gas(ctx, M, c, n)
            if path:
                with open(path) as f:
                    g = CK.parse_gas(f.read())
                check_K4(ctx, M, path, 'gas', g['reactions'])
        elif kind == 'surf':
            path = check_surf(ctx, M, c, n)
            if path:
                with open(path) as f:
                    s = CK.parse_surf(f.read())
                check_K4(ctx, M, path, 'surf', s['reactions'])
        elif kind == 'EA':
            check_EA(ctx, M, c, n, cond)
        elif kind == 'tube':
            check_tube(ctx, M, dict(calls['tube'], hist=tag) if tag else calls['tube'], cond, bool(n))
        else:
            check_tflow(ctx, M, dict(calls['tflow'], hist=tag) if tag else calls['tflow'], cond, bool(n))

    # round 1: every writer, in random order, on the freshly built objects
    tasks = ([('gas', n) for n in range(len(calls['gas']))] + [('surf', n) for n in range(len(calls['surf']))]
             + [('EA', n) for n in range(len(calls['EA']))] + [('tube', 0), ('tube', 1), ('tflow', 0), ('tflow', 1)])
    order = random.Random(spec.get('order_seed', 0))
    order.shuffle(tasks)
    for t in tasks:
        do(t, M)
    if 'history' not in spec:
        return
    # the owner of the list goes on using it; the model is edited through public attributes
    if rarg == 'list' and objs['caller_list']:
        objs['caller_list'].append(objs['caller_list'][0])
        ctx.cls('hist:append_to_caller_list')
    ops = spec['history']
    for op in ops:
        ctx.cls('hist:' + op['op'] + (':' + op['how'] if op['op'] == 'poly' else ''))
    MG.apply_history_to_objects(mech, objs, ops)
    mech2 = MG.apply_history_to_spec(mech, ops)
    M2 = Model({'mech': mech2}, objs)
    for op in ops:
        if op['op'] == 'site_density' and any(
                not M2.is_gas[i] and not r['is_adsorption'] and
                sum(nu for n, nu in r['reactants'] if M2.sp[n]['role'] in ('ads', 'vacant') and M2.sp[n]['site'] == op['site']) >= 1
                and sum(nu for n, nu in r['reactants'] if M2.sp[n]['role'] in ('ads', 'vacant')) >= 2
                for i, r in enumerate(M2.rx)):
            ctx.cls('hist:site_density:A_depends')
    # round 2: the same objects again, other order; every file describes the edited model
    again = [('surf', 0), ('surf', 1), ('gas', 1), ('EA', 2), ('EA', 3), ('tube', 0)]
    again = [t for t in again if t[0] in ('tube',) or t[1] < len(calls[t[0]])]
    order.shuffle(again)
    for t in again:
        do(t, M2, tag='rewrite_after_edit')

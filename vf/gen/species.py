"""Shared spec generators and factories for pMuTT species.

A *spec* is plain JSON; `build(spec)` returns the real pMuTT object.  Generators take a
`random.Random`.  Parameter ranges are those of the C01 / C02 quantifiers.
"""
import math

ELEMENT_POOL = ['H', 'C', 'O', 'N', 'Pt', 'Ni', 'S', 'Cl', 'Ar', 'He', 'Cu', 'Fe']


def rnd(rng, lo, hi, nd=6):
    return round(rng.uniform(lo, hi), nd)


def logu(rng, lo, hi, nd=6):
    v = math.exp(rng.uniform(math.log(lo), math.log(hi)))
    return float('%.*g' % (nd, v))


def gen_elements(rng, nmin=1, nmax=3, cmax=8):
    syms = rng.sample(ELEMENT_POOL, rng.randint(nmin, nmax))
    return {s: rng.randint(1, cmax) for s in syms}


# ------------------------------------------------------------------ statmech modes
def gen_trans(rng, allow_none=True):
    if allow_none and rng.random() < 0.3:
        return None
    return {'type': 'FreeTrans', 'n_degrees': rng.choice([1, 2, 3, 3, 3]),
            'molecular_weight': logu(rng, 1.0, 500.0)}


def gen_wavenumbers(rng, nmin=1, nmax=12, n_imag_max=2):
    n = rng.randint(nmin, nmax)
    w = [logu(rng, 10.0, 4500.0) for _ in range(n)]
    for _ in range(rng.choice([0, 0, 0, 1, 2][:n_imag_max + 3])):
        w[rng.randrange(n)] = -logu(rng, 10.0, 2000.0)
    return w


def gen_vib(rng, allow_none=True, kinds=('HarmonicVib', 'QRRHOVib', 'EinsteinVib', 'DebyeVib')):
    if allow_none and rng.random() < 0.15:
        return None
    k = rng.choice(kinds)
    if k == 'HarmonicVib':
        return {'type': k, 'vib_wavenumbers': gen_wavenumbers(rng),
                'imaginary_substitute': rng.choice([None, None, rnd(rng, 10, 200, 2)])}
    if k == 'QRRHOVib':
        return {'type': k, 'vib_wavenumbers': gen_wavenumbers(rng),
                'Bav': logu(rng, 1e-46, 1e-43), 'v0': rnd(rng, 50, 200, 2),
                'alpha': rng.choice([2, 3, 4, 5, 6]),
                'imaginary_substitute': rng.choice([None, None, rnd(rng, 10, 200, 2)])}
    if k == 'EinsteinVib':
        return {'type': k, 'einstein_temperature': logu(rng, 50, 2000),
                'interaction_energy': rnd(rng, -1, 1, 4)}
    return {'type': 'DebyeVib', 'debye_temperature': logu(rng, 50, 2000),
            'interaction_energy': rnd(rng, -1, 1, 4)}


def gen_rot(rng, allow_none=True):
    if allow_none and rng.random() < 0.3:
        return None
    geom = rng.choice(['monatomic', 'linear', 'nonlinear', 'nonlinear'])
    n = {'monatomic': 0, 'linear': 1, 'nonlinear': 3}[geom]
    return {'type': 'RigidRotor', 'symmetrynumber': rng.choice([1, 2, 3, 4, 6, 12, 24]),
            'geometry': geom, 'rot_temperatures': [logu(rng, 0.01, 100.0) for _ in range(n)]}


def gen_elec(rng, allow_none=True):
    if allow_none and rng.random() < 0.2:
        return None
    return {'type': 'GroundStateElec', 'potentialenergy': rnd(rng, -50, 0, 5),
            'spin': rng.choice([0, 0, 0.5, 1, 1.5, 2, 2.5, 3])}


def gen_statmech(rng, name='sp', gas=None, vib_kinds=('HarmonicVib', 'QRRHOVib', 'EinsteinVib', 'DebyeVib'),
                 with_elements=True):
    """gas=True forces an ideal-gas molecule (3D trans + rot + vib + elec), gas=False an
    adsorbate (vib + elec), gas=None anything."""
    if gas is True:
        spec = {'trans': {'type': 'FreeTrans', 'n_degrees': 3, 'molecular_weight': logu(rng, 1.0, 500.0)},
                'vib': gen_vib(rng, allow_none=False, kinds=('HarmonicVib',)),
                'rot': gen_rot(rng, allow_none=False), 'elec': gen_elec(rng, allow_none=False),
                'nucl': rng.choice([None, {'type': 'EmptyNucl'}])}
    elif gas is False:
        spec = {'trans': None, 'vib': gen_vib(rng, allow_none=False, kinds=('HarmonicVib',)),
                'rot': None, 'elec': gen_elec(rng, allow_none=False), 'nucl': None}
    else:
        spec = {'trans': gen_trans(rng), 'vib': gen_vib(rng, kinds=vib_kinds), 'rot': gen_rot(rng),
                'elec': gen_elec(rng), 'nucl': rng.choice([None, {'type': 'EmptyNucl'}])}
    spec['type'] = 'StatMech'
    spec['name'] = name
    if with_elements:
        spec['elements'] = gen_elements(rng)
    return spec


def build_mode(m):
    from pmutt.statmech import trans, vib, rot, elec, nucl, EmptyMode
    if m is None:
        return EmptyMode()
    m = dict(m)
    t = m.pop('type')
    if t == 'EmptyMode':
        return EmptyMode()
    if t == 'FreeTrans':
        return trans.FreeTrans(**m)
    if t == 'HarmonicVib':
        return vib.HarmonicVib(vib_wavenumbers=list(m['vib_wavenumbers']),
                               imaginary_substitute=m.get('imaginary_substitute'))
    if t == 'QRRHOVib':
        m['vib_wavenumbers'] = list(m['vib_wavenumbers'])
        return vib.QRRHOVib(**m)
    if t == 'EinsteinVib':
        return vib.EinsteinVib(**m)
    if t == 'DebyeVib':
        return vib.DebyeVib(**m)
    if t == 'RigidRotor':
        return rot.RigidRotor(symmetrynumber=m['symmetrynumber'], geometry=m['geometry'],
                              rot_temperatures=list(m['rot_temperatures']))
    if t == 'GroundStateElec':
        return elec.GroundStateElec(**m)
    if t == 'EmptyNucl':
        return nucl.EmptyNucl()
    if t == 'ConstantMode':
        from pmutt.statmech import ConstantMode
        return ConstantMode(**m)
    raise ValueError('unknown mode type %r' % t)


def build_statmech(spec, references=None, misc_models=None):
    from pmutt.statmech import StatMech
    return StatMech(name=spec.get('name'),
                    trans_model=build_mode(spec.get('trans')),
                    vib_model=build_mode(spec.get('vib')),
                    rot_model=build_mode(spec.get('rot')),
                    elec_model=build_mode(spec.get('elec')),
                    nucl_model=build_mode(spec.get('nucl')),
                    elements=dict(spec['elements']) if spec.get('elements') else None,
                    references=references, misc_models=misc_models,
                    smiles=spec.get('smiles'), notes=spec.get('notes'))


# ------------------------------------------------------------------ polynomials
def _poly_terms(rng, T_scale, powers, style):
    """coefficients a_k such that a_k * T_scale**p_k is O(1) ('arbitrary': uniform +-3,
    every term visible) or decays with |p| ('realistic')."""
    out = []
    for k, p in enumerate(powers):
        if style == 'arbitrary':
            contrib = rng.uniform(-3, 3)
        else:
            contrib = rng.uniform(-1, 1) * (0.5 ** abs(p)) * 2
        out.append(float('%.12g' % (contrib / (T_scale ** p))))
    return out


def gen_nasa7_coeffs(rng, T_scale=1000.0, style=None):
    style = style or rng.choice(['arbitrary', 'realistic'])
    a = _poly_terms(rng, T_scale, [0, 1, 2, 3, 4], style)
    if style == 'realistic':
        a[0] = float('%.10g' % rng.uniform(1.0, 20.0))
    a.append(float('%.10g' % rng.uniform(-5e4, 5e4)))      # a6 (H/R integration constant, K)
    a.append(float('%.10g' % rng.uniform(-30, 30)))        # a7 (S/R integration constant)
    return a


def gen_breaks(rng, n_seg, lo=50.0, hi=6000.0, min_width=20.0):
    while True:
        pts = sorted(round(rng.uniform(lo, hi), 2) for _ in range(n_seg + 1))
        if all(pts[i + 1] - pts[i] >= min_width for i in range(n_seg)):
            return pts


def gen_nasa(rng, name='sp', phase=None, elements=None, lo=50.0, hi=6000.0, style=None):
    T_low, T_mid, T_high = gen_breaks(rng, 2, lo, hi)
    spec = {'type': 'Nasa', 'name': name, 'T_low': T_low, 'T_mid': T_mid, 'T_high': T_high,
            'a_low': gen_nasa7_coeffs(rng, style=style), 'a_high': gen_nasa7_coeffs(rng, style=style),
            'phase': phase if phase is not None else rng.choice(['G', 'S', 'g', 'gas', None]),
            'elements': elements if elements is not None else gen_elements(rng)}
    return spec


def make_continuous_nasa(spec):
    """Adjust a_high[5], a_high[6] so that H and S are continuous at T_mid (real thermdat
    entries are); returns a new spec."""
    from vf.ref import poly
    s = dict(spec)
    al, ah = list(s['a_low']), list(s['a_high'])
    Tm = s['T_mid']
    dH = poly.nasa7_HoRT(al, Tm) - poly.nasa7_HoRT(ah, Tm)
    ah[5] += dH * Tm
    dS = poly.nasa7_SoR(al, Tm) - poly.nasa7_SoR(ah, Tm)
    ah[6] += dS
    s['a_high'] = ah
    return s


def gen_nasa9_coeffs(rng, T_scale=1000.0, style=None):
    style = style or rng.choice(['arbitrary', 'realistic'])
    a = _poly_terms(rng, T_scale, [-2, -1, 0, 1, 2, 3, 4], style)
    if style == 'realistic':
        a[2] = float('%.10g' % rng.uniform(1.0, 20.0))
    a.append(float('%.10g' % rng.uniform(-5e4, 5e4)))
    a.append(float('%.10g' % rng.uniform(-30, 30)))
    return a


def gen_nasa9(rng, name='sp', phase=None, elements=None, n_seg=None, lo=50.0, hi=6000.0, style=None):
    n_seg = n_seg or rng.randint(1, 4)
    pts = gen_breaks(rng, n_seg, lo, hi)
    return {'type': 'Nasa9', 'name': name,
            'phase': phase if phase is not None else rng.choice(['G', 'S', 'g', None]),
            'elements': elements if elements is not None else gen_elements(rng),
            'nasas': [{'T_low': pts[i], 'T_high': pts[i + 1], 'a': gen_nasa9_coeffs(rng, style=style)}
                      for i in range(n_seg)]}


# every key pmutt.constants.R documents
SHOMATE_UNITS = ['J/mol/K', 'kJ/mol/K', 'cal/mol/K', 'kcal/mol/K', 'eV/K', 'Eh/K', 'Ha/K',
                 'L atm/mol/K', 'cm3 atm/mol/K', 'm3 Pa/mol/K', 'L kPa/mol/K', 'L bar/mol/K',
                 'cm3 MPa/mol/K', 'cm3 kPa/mol/K', 'm3 bar/mol/K', 'L torr/mol/K']


def gen_shomate(rng, name='sp', phase=None, elements=None, lo=50.0, hi=6000.0, units=None, style=None):
    T_low, T_high = gen_breaks(rng, 1, lo, hi)
    style = style or rng.choice(['arbitrary', 'realistic'])
    # Shomate uses t = T/1000; a[0..4] multiply t^0, t, t^2, t^3, t^-2; values in `units`
    t = 1.0
    a = [rng.uniform(-30, 30) if style == 'arbitrary' else rng.uniform(10, 80)] + \
        [rng.uniform(-20, 20) for _ in range(3)] + [rng.uniform(-2, 2)] + \
        [rng.uniform(-300, 300), rng.uniform(-200, 300), rng.uniform(-300, 300)]
    return {'type': 'Shomate', 'name': name, 'T_low': T_low, 'T_high': T_high,
            'a': [float('%.10g' % v) for v in a],
            'units': units or 'J/mol/K',
            'phase': phase if phase is not None else rng.choice(['G', 'S', 'g', None]),
            'elements': elements if elements is not None else gen_elements(rng)}


def build(spec, **extra):
    """Build any species spec.  `extra` is forwarded to the constructor (misc_models,
    cat_site, n_sites, notes, add_gas_P_adj ...)."""
    import numpy as np
    t = spec['type']
    if t == 'StatMech':
        return build_statmech(spec, **extra)
    common = {}
    for k in ('phase', 'elements', 'notes', 'smiles', 'n_sites'):
        if k in spec and spec[k] is not None:
            common[k] = dict(spec[k]) if isinstance(spec[k], dict) else spec[k]
    common.update(extra)
    if t == 'Nasa':
        from pmutt.empirical.nasa import Nasa
        return Nasa(name=spec['name'], T_low=spec['T_low'], T_mid=spec['T_mid'], T_high=spec['T_high'],
                    a_low=np.array(spec['a_low'], dtype=float), a_high=np.array(spec['a_high'], dtype=float),
                    **common)
    if t == 'Nasa9':
        from pmutt.empirical.nasa import Nasa9, SingleNasa9
        nasas = [SingleNasa9(T_low=n['T_low'], T_high=n['T_high'], a=np.array(n['a'], dtype=float))
                 for n in spec['nasas']]
        return Nasa9(name=spec['name'], nasas=nasas, **common)
    if t == 'Shomate':
        from pmutt.empirical.shomate import Shomate
        return Shomate(name=spec['name'], T_low=spec['T_low'], T_high=spec['T_high'],
                       a=np.array(spec['a'], dtype=float), units=spec.get('units', 'J/mol/K'), **common)
    raise ValueError('unknown species type %r' % t)


def T_range(spec):
    t = spec['type']
    if t == 'Nasa9':
        return spec['nasas'][0]['T_low'], spec['nasas'][-1]['T_high']
    if t == 'StatMech':
        return 50.0, 5000.0
    return spec['T_low'], spec['T_high']

"""Generator + factory for OpenMKM / Cantera models (property C07).

Three kinds of case spec (plain JSON):

* ``model``   -- units, 1-4 phases, 2-40 species (Nasa / Nasa9 / Shomate), 0-40 surface
  reactions (adsorption or not; BEP, explicit transition state or none; user or automatic
  ids), 0-10 lateral interactions, T, P, Motz-Wise, and how the phases get their species
  (``construct`` | ``organize`` | ``incremental``).
* ``history`` -- 1-4 coexisting phase objects (some created with default arguments) and a
  random sequence of append / extend / remove / pop / clear / new-phase operations.
* ``reactor`` -- a subset of the ``write_yaml`` options with typed values (python number,
  NumPy scalar, string with units, list) with or without ``units``.

Assumptions that keep "the model's value" unambiguous (DESIGN C07): gas species take part
only in adsorption steps, every reaction involves exactly one interface, user ids use
prefixes different from the automatic r_/i_/b_ series and have 4-digit footers, unit
choices are those both Cantera's CTI format and pMuTT's tables know.
"""
from vf.gen import species as S

UNIT_CHOICES = {
    'length': ['cm', 'm'],
    'time': ['s', 's', 's', 's', 's', 'min', 'hr'],
    'quantity': ['molec', 'mol'],
    'energy': ['cal', 'kcal', 'J', 'kJ'],
    'act_energy': ['cal/mol', 'kcal/mol', 'J/mol', 'kJ/mol'],
    'pressure': ['bar', 'atm', 'Pa'],
    'mass': ['kg', 'g'],
}
DEFAULT_UNITS = {'length': 'cm', 'time': 's', 'quantity': 'molec', 'energy': 'cal',
                 'act_energy': 'cal/mol', 'pressure': 'bar', 'mass': 'kg'}

GAS_NAMES = ['H2', 'N2', 'NH3', 'CO', 'CO2', 'CH4', 'H2O', 'O2', 'C2H4', 'C2H6', 'CH3OH', 'HCOOH',
             'AR', 'HE', 'N2O', 'C3H8', 'HCN', 'H2S', 'SO2', 'CH2O']
FRAGMENTS = ['H', 'N', 'O', 'C', 'OH', 'NH', 'NH2', 'NH3', 'CO', 'CH', 'CH2', 'CH3', 'CH4', 'N2', 'H2O',
             'COOH', 'HCO', 'CH3O', 'C2H4', 'C2H5', 'O2', 'CN', 'NO2', 'C-O', 'CH3_CH2', 'CHO', 'C2H2',
             'C2H3', 'CCH3', 'OOH', 'NNH', 'N2H2', 'N2H4', 'CH2OH', 'C3H7', 'HCOO', 'C2H6', 'NH2OH', 'CH3OH',
             'cis-HCOOH', 'trans-HCOOH', 'CO-OH', 'CH3-CH2', 'iso-C3H7', 'H-COO', 'n_C4H9']
# names for the wrapped-list histories: punctuation that is legal inside a CTI / YAML name
WRAP_SPECIAL = ['cis-HCOOH(S)', 'trans-HCOOH(S)', 'CO-OH(S)', 'CH3-CH2(S)', 'iso-C3H7(S)', 'n-C4H9(S)', 'H-COO(S)',
                'O-O(S)', 't-BuO(S)', 'HO-CO(S)', 'C-O(S)', 'N-N(S)', 'CH3_CH2(S)', 'a_b-c(S)', 'x-y-z(S)']
WRAP_FILLERS = ['PT(S)', 'H(S)', 'O(S)', 'OH(S)', 'H2O(S)', 'CO(S)', 'CO2(S)', 'COOH(S)', 'HCOO(S)', 'CHO(S)',
                'CH2O(S)', 'CH3O(S)', 'CH3OH(S)', 'C(S)', 'CH(S)', 'CH2(S)', 'CH3(S)', 'CH4(S)', 'N(S)', 'NH(S)',
                'NH2(S)', 'NH3(S)', 'N2(S)', 'NO2(S)']
METALS = ['Pt', 'Ni', 'Cu', 'Fe']
BEP_NAMES = ['C-H', 'N-H', 'O-H', 'C-C', 'C-O', 'NH-H', 'NH2-H', 'N-N']
SURF_TAGS = ['T', 'S', 'X1', 'F']
NOTE_WORDS = ['stepped', 'surface', 'of', 'the', 'catalyst', 'after', 'reduction', 'in', 'H2', 'at', '673', 'K',
              'DFT', 'PBE-D3', 'slab', 'four', 'layers', 'p(3x3)', 'cell', 'see', 'ref.', '12', 'and', 'SI',
              'a', 'terrace', 'sites', 'only', 'coverage', 'dependent', 'fit', 'to', 'TPD', 'data']


def gen_note(rng, short):
    """None, a short note, or a multi-word note long enough to be wrapped by the CTI writer"""
    r = rng.random()
    if r < 0.4:
        return None
    if r < 0.65:
        return short
    return ' '.join(rng.choice(NOTE_WORDS) for _ in range(rng.randint(5, 16)))


def _r(rng, lo, hi, nd=4):
    return round(rng.uniform(lo, hi), nd)


def gen_units(rng):
    return {k: rng.choice(v) for k, v in UNIT_CHOICES.items()}


# ------------------------------------------------------------------ species
def _elements(rng, metal=None, nmax=3):
    el = {}
    for s in rng.sample(['H', 'C', 'O', 'N'], rng.randint(1, nmax)):
        el[s] = rng.randint(1, 6)
    if metal:
        el[metal] = rng.randint(1, 2)
    return el


def gen_species_spec(rng, name, kind, phase, elements, n_sites):
    """Thermo valid on at least [250, 1200] K so that every model temperature is in range."""
    T_low = _r(rng, 50, 250, 2)
    T_high = _r(rng, 1200, 4000, 2)
    if kind == 'Nasa':
        sp = {'type': 'Nasa', 'name': name, 'T_low': T_low, 'T_mid': _r(rng, 400, 900, 2), 'T_high': T_high,
              'a_low': S.gen_nasa7_coeffs(rng), 'a_high': S.gen_nasa7_coeffs(rng)}
    elif kind == 'Nasa9':
        nseg = rng.randint(1, 3)
        inner = sorted(_r(rng, 300 + 60 * k, 1100, 2) for k in range(nseg - 1))
        pts = [T_low] + inner + [T_high]
        for k in range(1, len(pts)):                       # strictly ascending
            if pts[k] <= pts[k - 1]:
                pts[k] = round(pts[k - 1] + 25.0, 2)
        sp = {'type': 'Nasa9', 'name': name,
              'nasas': [{'T_low': pts[k], 'T_high': pts[k + 1], 'a': S.gen_nasa9_coeffs(rng)}
                        for k in range(nseg)]}
        # Nasa9 accepts its intervals in any order
        if nseg >= 2 and rng.random() < 0.4:
            rng.shuffle(sp['nasas'])
            sp['nasas_order'] = 'shuffled'
    else:
        sh = S.gen_shomate(rng, name=name, phase=phase, elements=elements, units='J/mol/K')
        sp = {'type': 'Shomate', 'name': name, 'T_low': T_low, 'T_high': T_high, 'a': sh['a'],
              'units': 'J/mol/K'}
    sp['phase'] = phase
    sp['elements'] = elements
    sp['n_sites'] = n_sites
    return sp


def build_species(sp):
    """Real pMuTT species.  n_sites is always passed explicitly (Nasa9's default is 1)."""
    spec = dict(sp)
    n_sites = spec.pop('n_sites', None)
    return S.build(spec, n_sites=n_sites)


# ------------------------------------------------------------------ model
def gen_model(rng, tier, **force):
    big = tier == 'thorough'
    # half of the models avoid the input classes that make a whole file unusable on the current tree
    # (NASA-9 species in CTI, molecule-based lateral interactions, unnamed BEPs, site-before-gas
    # adsorption, YAML keyword names) so that every clause keeps being evaluated on complete files
    profile = force.pop('profile', None) or rng.choice(['plain', 'hostile'])
    if force.get('populate') is None:
        force['populate'] = rng.choice(['construct', 'organize', 'incremental', 'moved'])
    if force['populate'] == 'moved':
        # species are moved between coexisting phases before the files are written: needs reactions on
        # gas + interface(s) and complete files
        profile = 'plain'
        force.setdefault('layout', rng.choice(['g+s+s', 'g+b+s+s', 'g+s', 'g+b+s', 'g+s+s']))
        force.setdefault('n_reactions', rng.choice([4, 6, 10, 16]))
    if profile == 'plain':
        force.setdefault('kinds_w', rng.choice([[6, 0, 2], [8, 0, 0], [4, 0, 4]]))
        force.setdefault('site_first_p', 0.0)
        force.setdefault('bep_named', True)
        force.setdefault('yaml_keyword_name', False)
    layout = force.get('layout') or rng.choices(
        ['g+b+s', 'g+s', 'g+b+s+s', 'g+s+s', 's', 'g', 'b+s', 'g+b'],
        [6, 4, 6, 3, 2, 1, 1, 1])[0]
    parts = layout.split('+')
    units_as = force.get('units_as') or rng.choice(['object', 'object', 'dict', 'none'])
    units = dict(DEFAULT_UNITS) if units_as == 'none' else (force.get('units') or gen_units(rng))
    populate = force.get('populate') or rng.choice(['construct', 'organize', 'incremental', 'moved'])
    kinds_w = force.get('kinds_w') or rng.choice([[6, 0, 2], [5, 3, 2], [4, 3, 3], [8, 0, 0], [2, 6, 2]])
    kind_of = lambda: rng.choices(['Nasa', 'Nasa9', 'Shomate'], kinds_w)[0]

    n_total = force.get('n_species') or (rng.choice([2, 3, 5, 8, 12, 18, 25, 40]) if big else
                                         rng.choice([2, 4, 6, 8, 10, 14, 20, 40]))
    phases, species = [], []
    names = set()
    metal = rng.choice(METALS)
    n_surf_ph = parts.count('s')
    n_gas = 0
    if 'g' in parts:
        if n_surf_ph == 0 and 'b' not in parts:
            n_gas = min(max(2, n_total), len(GAS_NAMES))
        elif n_surf_ph == 0:
            n_gas = min(max(1, n_total - 1), len(GAS_NAMES))
        else:
            n_gas = rng.randint(1, max(1, min(len(GAS_NAMES), n_total // 3)))
    gas_names = rng.sample(GAS_NAMES, n_gas) if n_gas else []
    if n_gas and force.get('yaml_keyword_name', rng.random() < 0.06):
        gas_names[0] = 'NO'
    gname = rng.choice(['gas', 'gas', 'g_phase'])
    if n_gas:
        for nm in gas_names:
            species.append(gen_species_spec(rng, nm, kind_of(), gname, _elements(rng), None))
            names.add(nm)
        phases.append({'type': 'IdealGas', 'name': gname, 'species': list(gas_names),
                       'note': gen_note(rng, 'feed')})
    bulk_name = None
    if 'b' in parts:
        bulk_name = rng.choice(['bulk', 'b1'])
        nm = metal.upper() + '(B)'
        species.append(gen_species_spec(rng, nm, kind_of(), bulk_name, {metal: 1}, None))
        names.add(nm)
        phases.append({'type': 'StoichSolid', 'name': bulk_name, 'species': [nm],
                       'density': float('%.5g' % rng.uniform(1.5, 22.0)),
                       'note': gen_note(rng, metal + ' metal')})
    remaining = max(n_surf_ph * 2, n_total - len(species))
    surf = []
    tags = rng.sample(SURF_TAGS, n_surf_ph)
    for k, tag in enumerate(tags):
        n_here = remaining // n_surf_ph + (1 if k < remaining % n_surf_ph else 0)
        n_here = max(2, n_here)
        site = '%s(%s)' % (metal.upper(), tag)
        ads = ['%s(%s)' % (f, tag) for f in rng.sample(FRAGMENTS, min(len(FRAGMENTS), n_here - 1))]
        pname = {'T': 'terrace', 'S': 'step', 'X1': 'iface_x1', 'F': 'facet'}[tag]
        species.append(gen_species_spec(rng, site, kind_of(), pname, {metal: 1}, 1))
        for a in ads:
            species.append(gen_species_spec(rng, a, kind_of(), pname, _elements(rng, metal),
                                            rng.choice([1, 1, 1, 2, 3, 1.0])))
        names.update([site] + ads)
        others = [p['name'] for p in phases if p['type'] != 'InteractingInterface']
        ph = {'type': 'InteractingInterface', 'name': pname, 'species': [site] + ads,
              'site_density': float('%.5g' % (10 ** rng.uniform(-10, -8))),
              'phases': others, 'phases_as': rng.choice(['objects', 'names']),
              'note': gen_note(rng, '%s(111)' % metal)}
        phases.append(ph)
        surf.append({'phase': pname, 'site': site, 'ads': ads, 'tag': tag})

    # ---- BEPs, reactions, interactions
    n_rxn = 0
    if surf:
        n_rxn = force.get('n_reactions')
        if n_rxn is None:
            n_rxn = rng.choice([0, 1, 3, 5, 8, 12, 20, 40] if big else [0, 1, 2, 4, 6, 10, 16, 40])
    n_bep = 0 if n_rxn == 0 else force.get('n_beps', rng.choice([0, 0, 1, 1, 2, 3]))
    bep_named = force.get('bep_named', rng.random() >= 0.05)
    beps = []
    for nm in rng.sample(BEP_NAMES, n_bep):
        beps.append({'name': nm if bep_named else None, 'slope': _r(rng, 0.0, 1.0, 3),
                     'intercept': _r(rng, 0.0, 40.0, 3),
                     'direction': rng.choice(['cleavage', 'synthesis']),
                     'descriptor': rng.choice(['delta_H', 'delta_H', 'rev_delta_H'])})
    reactions = []
    ts_species = []
    used_ids = set()
    seen_eq = set()
    user_id_mode = force.get('ids') or rng.choice(['auto', 'auto', 'user', 'mixed', 'blocks'])
    # 'blocks': user ids in short consecutive runs separated by gaps, two headers, handed out in shuffled
    # order -> a phase / BEP lists several "a to b" ranges and single ids (long range lists)
    block_ids = []
    if user_id_mode == 'blocks':
        for hdr in ('u', 'rx'):
            k, mine = rng.randint(0, 3), []
            while len(mine) < (n_rxn + 3) // 2:
                run = rng.choice([1, 2, 2, 3, 4])
                mine.extend('%s_%04d' % (hdr, k + j) for j in range(run))
                k += run + rng.randint(1, 3)
            block_ids.extend(mine[:(n_rxn + 3) // 2])
        rng.shuffle(block_ids)
    site_first_p = force.get('site_first_p', 0.08)
    for i in range(n_rxn):
        s = rng.choice(surf)
        can_ads = bool(gas_names)
        is_ads = can_ads and (rng.random() < 0.4 or len(s['ads']) < 2)
        if not s['ads']:
            break
        rx = {'phase': s['phase'], 'is_adsorption': is_ads}
        if is_ads:
            g = rng.choice(gas_names)
            nsite = rng.randint(1, 2)
            prods = [[rng.choice(s['ads']), rng.randint(1, 2)]]
            if bulk_name and rng.random() < 0.3:
                prods.append([metal.upper() + '(B)', nsite])
            reac = [[g, 1], [s['site'], nsite]]
            if rng.random() < site_first_p:
                reac.reverse()
            rx.update(reactants=reac, products=prods,
                      sticking_coeff=rng.choice([None, None, _r(rng, 0.01, 1.0, 3), _r(rng, 0.01, 1.0, 3),
                                                 0.0, 1.0, 1e-12]))
        else:
            pool = s['ads'] + [s['site']]
            reac_names = rng.sample(pool, rng.randint(1, min(2, len(pool))))
            if all(n == s['site'] for n in reac_names):
                reac_names = [rng.choice(s['ads'])]
            reac = [[n, rng.choice([1, 1, 1, 2])] for n in reac_names]
            if bulk_name and rng.random() < 0.2:
                reac.append([metal.upper() + '(B)', 1])
            rest = [n for n in pool if n not in reac_names] or pool
            prods = [[n, rng.choice([1, 1, 2])] for n in rng.sample(rest, rng.randint(1, min(2, len(rest))))]
            rx.update(reactants=reac, products=prods, sticking_coeff=None)
        # transition state
        tsk = rng.choices(['none', 'bep', 'species'], [4, 4 if beps else 0, 2])[0]
        if tsk == 'bep':
            b = rng.randrange(len(beps))
            rx['ts'] = {'bep': b}
            rx['direction'] = rng.choice(['cleavage', 'synthesis'])
        elif tsk == 'species':
            nm = 'TS%d(%s)' % (len(ts_species) + 1, s['tag'])
            ts_species.append(gen_species_spec(rng, nm, 'Nasa', s['phase'], _elements(rng, metal), 1))
            rx['ts'] = {'species': nm}
            rx['direction'] = None
        else:
            rx['ts'] = None
            rx['direction'] = None
        # pairwise distinct reactions (an identical duplicate is not a second reaction of the model)
        eqk = (tuple(sorted(map(tuple, rx['reactants']))), tuple(sorted(map(tuple, rx['products']))))
        if eqk in seen_eq:
            if tsk == 'species':
                ts_species.pop()
            continue
        seen_eq.add(eqk)
        rx['A'] = None if is_ads else rng.choice([None, None, None, float('%.4g' % (10 ** rng.uniform(8, 22))),
                                                  float('%.4g' % (10 ** rng.uniform(8, 22))), 0.0, 1e-30, 1e35])
        rx['beta'] = rng.choice([None, None, 0, 1, 0.5, _r(rng, -1, 2, 2), -1, 0.0, -0.5])
        # user-supplied activation energies at the sign / zero boundaries (kcal/mol), for adsorption
        # (sticking probability falling with T) and surface steps alike
        rx['Ea'] = rng.choice([None, None, None, 0.0, _r(rng, 0.0, 60.0, 3), _r(rng, 0.0, 60.0, 3),
                               -0.65, _r(rng, -15.0, 0.0, 3), 1e-9, -1e-9])
        want_user = user_id_mode == 'user' or (user_id_mode == 'mixed' and rng.random() < 0.5)
        if user_id_mode == 'blocks' and block_ids:
            rx['id'] = block_ids.pop()
            used_ids.add(rx['id'])
        elif want_user:
            while True:
                uid = '%s_%04d' % (rng.choice(['u', 'rx']), rng.randint(0, 60))
                if uid not in used_ids:
                    used_ids.add(uid)
                    break
            rx['id'] = uid
        else:
            rx['id'] = None
        reactions.append(rx)
    # a BEP that no reaction uses would not be written: drop it from the model
    used_b = sorted({r['ts']['bep'] for r in reactions if r['ts'] and 'bep' in r['ts']})
    remap = {old: new for new, old in enumerate(used_b)}
    beps = [beps[b] for b in used_b]
    for r in reactions:
        if r['ts'] and 'bep' in r['ts']:
            r['ts']['bep'] = remap[r['ts']['bep']]
    # twin BEPs: 2-3 distinct BEP objects with identical parameters (one object per family member, as when
    # they are built row by row), each used by its own reaction(s); anonymous or with distinct names
    bep_twins = None
    users = {}
    for k, r in enumerate(reactions):
        if r['ts'] and 'bep' in r['ts']:
            users.setdefault(r['ts']['bep'], []).append(k)
    cand = sorted(b for b, ks in users.items() if len(ks) >= 2)
    if cand and force.get('bep_twins', rng.random() < 0.2):
        bep_twins = force.get('bep_twins') if isinstance(force.get('bep_twins'), str) else \
            rng.choice(['unnamed', 'unnamed', 'named'])
        b = rng.choice(cand)
        ks = users[b]
        n_tw = min(len(ks) - 1, rng.randint(1, 2))
        base_name = beps[b]['name'] or 'X-Y'
        if bep_twins == 'unnamed':
            beps[b]['name'] = None
        for j in range(n_tw):
            beps.append(dict(beps[b], name=None if bep_twins == 'unnamed' else '%s-%s' % (base_name, 'bc'[j])))
            reactions[ks[j + 1]]['ts'] = {'bep': len(beps) - 1}
        for k in ks[n_tw + 1:]:
            if rng.random() < 0.5:
                reactions[k]['ts'] = {'bep': len(beps) - 1 - rng.randrange(n_tw)}

    interactions = []
    n_int = 0
    if surf:
        n_int = force.get('n_interactions')
        if n_int is None:
            n_int = rng.choice([0, 0, 1, 2, 4, 10])
    int_names = force.get('int_names') or rng.choice(['auto', 'auto', 'user', 'mixed', 'blocks'])
    int_block = []
    k = 100
    while len(int_block) < n_int:
        run = rng.choice([1, 2, 2, 3])
        int_block.extend('li_%04d' % (k + j) for j in range(run))
        k += run + rng.randint(1, 3)
    int_block = int_block[:n_int]
    rng.shuffle(int_block)
    for i in range(n_int):
        s = rng.choice(surf)
        if not s['ads']:
            continue
        nb = rng.randint(1, 3)
        iv = [0.0] + sorted(set(_r(rng, 0.05, 0.95, 3) for _ in range(nb - 1)))
        user = int_names == 'user' or (int_names == 'mixed' and rng.random() < 0.5)
        interactions.append({'name_i': rng.choice(s['ads']), 'name_j': rng.choice(s['ads']),
                             'intervals': iv, 'slopes': [_r(rng, -60, 20, 3) for _ in iv],
                             'name': (int_block[i] if int_names == 'blocks' else
                                      ('li_%04d' % (100 + i)) if user else None), 'phase': s['phase']})

    if profile == 'plain' and interactions and units_as != 'none':
        units['quantity'] = 'mol'
    if profile == 'plain' and interactions and units_as == 'none':
        interactions = []
    spec = {'kind': 'model', 'profile': profile, 'units': units, 'units_as': units_as, 'T': _r(rng, 260, 1190, 2),
            'P': rng.choice([1.0, 1.0, _r(rng, 0.01, 50, 3)]), 'motz_wise': rng.random() < 0.5,
            'populate': populate, 'phases': phases, 'species': species, 'ts_species': ts_species,
            'beps': beps, 'reactions': reactions, 'interactions': interactions,
            'reactions_arg': 'list' if reactions else rng.choice(['list', 'none']),
            'interactions_arg': 'list' if interactions else rng.choice(['list', 'none']),
            'first': rng.choice(['cti', 'yaml']), 'ids_mode': user_id_mode, 'bep_twins': bep_twins,
            'rewrite': rng.random() < (0.6 if bep_twins else 0.1),
            'line_lens': [rng.choice([40, 50, 60, 72, 79, 80, 81, 100, 132])
                          for _ in range(rng.choice([0, 1, 1, 2]))],
            'fresh_second': rng.random() < 0.3,
            'to_file': rng.random() < 0.25}
    if populate == 'incremental':
        spec['ops'] = gen_fill_ops(rng, phases)
    if populate == 'moved':
        gen_moves(rng, spec)
    return spec


def gen_moves(rng, spec):
    """Displace a few species into another coexisting phase object of the same type (another phase of
    the model, or a scratch phase that is not written) and generate the operations that move them to
    their phase, in the order add-then-remove or remove-then-add.  Preferred: surface reactants of
    reactions whose A is computed, and the gas reactant of an adsorption."""
    phases = spec['phases']
    ptype = {p['name']: p['type'] for p in phases}
    home = {n: p['name'] for p in phases for n in p['species']}
    gas = {n for p in phases if p['type'] == 'IdealGas' for n in p['species']}
    surf = {n for p in phases if p['type'] == 'InteractingInterface' for n in p['species']}
    non_ads = [r for r in spec['reactions'] if not r['is_adsorption']]
    if non_ads and not any(r['A'] is None for r in non_ads):
        rng.choice(non_ads)['A'] = None
    c_surf = sorted({n for r in non_ads if r['A'] is None for n, _ in r['reactants'] if n in surf})
    c_gas = sorted({n for r in spec['reactions'] if r['is_adsorption'] for n, _ in r['reactants'] if n in gas})
    chosen, tags = [], {}
    for n in rng.sample(c_surf, min(len(c_surf), rng.randint(1, 2))):
        chosen.append(n)
        tags[n] = 'surface_reactant_computed_A'
    if c_gas:
        n = rng.choice(c_gas)
        chosen.append(n)
        tags[n] = 'gas_sticking_species'
    rest = sorted(set(home) - set(chosen))
    for n in rng.sample(rest, min(len(rest), rng.randint(0, 2))):
        chosen.append(n)
        tags[n] = 'other'
    init = {p['name']: list(p['species']) for p in phases}
    scratch = {}
    where = {}
    for n in chosen:
        P = home[n]
        same = [p['name'] for p in phases if p['type'] == ptype[P] and p['name'] != P]
        if same and rng.random() < 0.6:
            Q = rng.choice(same)
        else:
            Q = 'old_' + ptype[P]
            scratch.setdefault(Q, {'type': ptype[P], 'name': Q})
            init.setdefault(Q, [])
        init[P].remove(n)
        init[Q].insert(rng.randint(0, len(init[Q])), n)
        where[n] = Q
    cur = {k: list(v) for k, v in init.items()}
    ops, moves = [], []
    order = list(chosen)
    rng.shuffle(order)
    for n in order:
        P, Q = home[n], where[n]
        how = rng.choice(['add_first', 'add_first', 'remove_first'])
        add = ['append', P, n] if rng.random() < 0.6 else ['extend', P, [n]]
        r = rng.random()
        if r < 0.15 and cur[Q] == [n]:
            rem = ['clear', Q]
        elif r < 0.55:
            rem = ['pop', Q, cur[Q].index(n)]
        else:
            rem = ['remove', Q, n]
        ops.extend([add, rem] if how == 'add_first' else [rem, add])
        cur[Q].remove(n)
        cur[P].append(n)
        moves.append({'species': n, 'from': Q, 'to': P, 'order': how, 'removal': rem[0], 'role': tags[n]})
    spec['init_phases'] = init
    spec['scratch'] = [scratch[k] for k in sorted(scratch)]
    spec['ops'] = ops
    spec['moves'] = moves


def gen_fill_ops(rng, phases):
    """Operation sequence that takes empty phases to their target species lists, interleaved
    across phases, with detours (append + remove, clear + refill, pop)."""
    todo = {p['name']: list(p['species']) for p in phases}
    cur = {p['name']: [] for p in phases}
    ops = []
    order = [p['name'] for p in phases]
    detours = rng.randint(0, 6)
    clears = 1
    while any(todo.values()):
        pn = rng.choice([n for n in order if todo[n]])
        k = rng.choice(['append', 'append', 'extend', 'extend', 'detour_remove', 'detour_pop', 'detour_clear'])
        if k.startswith('detour'):
            if detours <= 0 or not cur[pn]:
                k = 'append'
            else:
                detours -= 1
        if k == 'append':
            nm = todo[pn].pop(0)
            ops.append(['append', pn, nm])
            cur[pn].append(nm)
        elif k == 'extend':
            n = rng.randint(1, min(4, len(todo[pn])))
            chunk, todo[pn] = todo[pn][:n], todo[pn][n:]
            ops.append(['extend', pn, chunk])
            cur[pn].extend(chunk)
        elif k == 'detour_remove':
            nm = rng.choice(cur[pn])
            ops.append(['remove', pn, nm])
            cur[pn].remove(nm)
            todo[pn].append(nm)
        elif k == 'detour_pop':
            i = rng.randrange(len(cur[pn]))
            ops.append(['pop', pn, i])
            todo[pn].append(cur[pn].pop(i))
        elif k == 'detour_clear' and clears > 0:
            clears -= 1
            ops.append(['clear', pn])
            todo[pn] = cur[pn] + todo[pn]
            cur[pn] = []
    return ops


# ------------------------------------------------------------------ history
def gen_history(rng, tier, **force):
    flavour = force.get('flavour') or rng.choices(['plain', 'wrap'], [4, 1])[0]
    names = None
    if flavour == 'wrap':
        # long species lists with hyphenated / underscored names: the CTI writer has to wrap them
        n_pool = rng.randint(12, 30)
        nsp = rng.randint(2, min(8, n_pool - 4))
        names = rng.sample(WRAP_SPECIAL, nsp) + rng.sample(WRAP_FILLERS, min(len(WRAP_FILLERS), n_pool - nsp))
        n_pool = len(names)
        rng.shuffle(names)
    else:
        n_pool = rng.randint(3, 10)
    n_ph = rng.choice([1, 2, 2, 3, 3, 4])
    types = ['InteractingInterface', 'InteractingInterface', 'IdealGas', 'StoichSolid']
    phases = []
    for k in range(n_ph):
        t = rng.choice(types)
        init = None if rng.random() < 0.6 else rng.sample(range(n_pool), rng.randint(0, min(3, n_pool)))
        if flavour == 'wrap' and k == 0:
            init = rng.sample(range(n_pool), rng.randint(max(8, n_pool - 6), n_pool))
        ph = {'type': t, 'name': 'ph%d' % k, 'init': init}
        if t in ('IdealGas', 'StoichSolid') and rng.random() < 0.4:
            # homogeneous reactions handed to the phase as base Reaction / ChemkinReaction objects that
            # carry an id; some are legitimate duplicates (equal content, different ids), some involve a
            # species of another phase (the phase filters those out)
            cls = rng.choice(['Reaction', 'ChemkinReaction'])
            n = rng.randint(2, 7)
            ids, j = [], rng.randint(0, 5)
            while len(ids) < n:
                run = rng.choice([1, 2, 3])
                ids.extend('g%d_%04d' % (k, j + i) for i in range(run))
                j += run + rng.randint(1, 3)
            ids = ids[:n]
            rng.shuffle(ids)
            twins = rng.random() < 0.6
            ph['rxns'] = [{'cls': cls, 'id': i, 'eq': 0 if (twins and q < 3) else rng.randint(0, 3),
                           'foreign': (not (twins and q < 3)) and rng.random() < 0.2}
                          for q, i in enumerate(ids)]
        phases.append(ph)
    # 1..n_ph exist from the start, the rest are created by a 'new' operation
    n_start = rng.randint(1, n_ph)
    pending = list(range(n_start, n_ph))
    live = list(range(n_start))
    model = {k: list(phases[k]['init'] or []) for k in live}
    ops = []
    moves = {'add_first': 0, 'remove_first': 0}
    n_ops = rng.randint(3, 14) if flavour == 'plain' else rng.randint(1, 5)
    while len(ops) < n_ops or pending:
        if pending and (len(ops) >= n_ops or rng.random() < 0.25):
            k = pending.pop(0)
            ops.append(['new', k])
            live.append(k)
            model[k] = list(phases[k]['init'] or [])
            continue
        p = rng.choice(live)
        kind = rng.choices(['append', 'extend', 'remove', 'pop', 'clear', 'move'],
                           [6, 4, 3, 3, 1 if flavour == 'plain' else 0, 4])[0]
        if kind == 'append':
            i = rng.randrange(n_pool)
            ops.append(['append', p, i])
            model[p].append(i)
        elif kind == 'extend':
            idx = rng.sample(range(n_pool), rng.randint(0, min(3, n_pool)))
            ops.append(['extend', p, idx])
            model[p].extend(idx)
        elif kind == 'remove' and model[p]:
            i = rng.choice(model[p])
            ops.append(['remove', p, i])
            model[p].remove(i)
        elif kind == 'pop' and model[p]:
            j = rng.choice([0, len(model[p]) - 1, rng.randrange(len(model[p]))])
            ops.append(['pop', p, j])
            model[p].pop(j)
        elif kind == 'clear':
            ops.append(['clear', p])
            model[p] = []
        elif kind == 'move' and len(live) >= 2 and model[p]:
            # move one species from phase p to another coexisting phase q
            q = rng.choice([k for k in live if k != p])
            i = rng.choice(model[p])
            how = rng.choice(['add_first', 'remove_first'])
            add = ['append', q, i] if rng.random() < 0.6 else ['extend', q, [i]]
            r = rng.random()
            if r < 0.15 and model[p] == [i]:
                rem = ['clear', p]
            elif r < 0.55:
                rem = ['pop', p, model[p].index(i)]
            else:
                rem = ['remove', p, i]
            ops.extend([add, rem] if how == 'add_first' else [rem, add])
            model[p].remove(i)
            model[q].append(i)
            moves[how] += 1
    return {'kind': 'history', 'flavour': flavour, 'pool': n_pool, 'names': names, 'phases': phases,
            'n_start': n_start, 'ops': ops, 'moves': moves, 'units': gen_units(rng),
            'emit': True if flavour == 'wrap' else rng.random() < 0.7}


# ------------------------------------------------------------------ reactor
# option -> (yaml path, unit template or None, value family)
REACTOR_OPTIONS = {
    'reactor_type': ('reactor.type', None, 'cat', ['pfr', 'pfr_0d', 'cstr', 'batch']),
    'temperature_mode': ('reactor.temperature_mode', None, 'cat', ['Isothermal', 'Adiabatic']),
    'pressure_mode': ('reactor.pressure_mode', None, 'cat', ['Isobaric', 'Isochoric']),
    'nodes': ('reactor.nodes', None, 'int', None),
    'V': ('reactor.volume', '{length}3', 'num', None),
    'T': ('reactor.temperature', None, 'num', None),
    'P': ('reactor.pressure', '{pressure}', 'num', None),
    'A': ('reactor.area', '{length}2', 'num', None),
    'L': ('reactor.length', '{length}', 'num', None),
    'cat_abyv': ('reactor.cat_abyv', '/{length}', 'num', None),
    'flow_rate': ('inlet_gas.flow_rate', '{length}3/{time}', 'num', None),
    'residence_time': ('inlet_gas.residence_time', '{time}', 'num', None),
    'mass_flow_rate': ('inlet_gas.mass_flow_rate', '{mass}/{time}', 'num', None),
    'end_time': ('simulation.end_time', '{time}', 'num', None),
    'transient': ('simulation.transient', None, 'bool', None),
    'stepping': ('simulation.stepping', None, 'cat', ['logarithmic', 'regular']),
    'init_step': ('simulation.init_step', None, 'num', None),
    'step_size': ('simulation.step_size', None, 'num', None),
    'atol': ('simulation.solver.atol', None, 'num', None),
    'rtol': ('simulation.solver.rtol', None, 'num', None),
    'full_SA': ('simulation.sensitivity.full', None, 'bool', None),
    'reactions_SA': ('simulation.sensitivity.reactions', None, 'strlist', None),
    'species_SA': ('simulation.sensitivity.species', None, 'strlist', None),
    'multi_T': ('simulation.multi_input.temperature', None, 'numlist', None),
    'multi_P': ('simulation.multi_input.pressure', '{pressure}', 'numlist', None),
    'multi_flow_rate': ('simulation.multi_input.flow_rate', '{length}3/{time}', 'numlist', None),
    'output_format': ('simulation.output_format', None, 'cat', ['CSV', 'DAT']),
}
# when a multi_* list is supplied without its scalar, write_yaml derives the scalar from the
# first list entry (undocumented): the derived key is tolerated, and if present it must carry the
# first list value with its unit
MULTI_SCALAR = {'multi_T': 'T', 'multi_P': 'P', 'multi_flow_rate': 'flow_rate'}
SI_STR_UNITS = {'V': ['cm3', 'm3', 'L'], 'P': ['atm', 'bar', 'Pa'], 'A': ['cm2', 'm2'], 'L': ['cm', 'm'],
                'cat_abyv': ['/cm', '/m'], 'flow_rate': ['cm3/s', 'm3/s', 'cm3/min'],
                'residence_time': ['s', 'min'], 'mass_flow_rate': ['kg/s', 'g/s'], 'end_time': ['s', 'hr'],
                'multi_P': ['atm', 'bar'], 'multi_flow_rate': ['cm3/s', 'm3/s']}
NUM_TYPES = ['float', 'float', 'int', 'np.float64', 'np.int64', 'np.float32']


def _num_value(rng, t):
    if t in ('int', 'np.int64'):
        return rng.randint(1, 500)
    if t == 'np.float32':
        return rng.choice([0.5, 1.5, 2.0, 0.25, 8.0, 100.0, 1024.0])     # exactly representable
    return float('%.4g' % (10 ** rng.uniform(-3, 4)))


def gen_reactor(rng, tier, **force):
    with_units = force.get('with_units', rng.random() < 0.7)
    n_opt = rng.choice([1, 1, 2, 3, 5, 8, 12, len(REACTOR_OPTIONS)])
    chosen = force.get('options') or rng.sample(sorted(REACTOR_OPTIONS), n_opt)
    # one dominant numeric representation per case, with a minority of others: keeps the
    # file loadable often enough for the remaining keys to be compared
    dom = force.get('dom') or rng.choice(['float', 'float', 'int', 'np.float64', 'np.int64', 'np.float32',
                                          'str', 'mixed'])
    opts = {}
    # a multi_* list without its scalar: write_yaml derives the scalar from the first list entry
    # (undocumented).  Half of the cases supply the scalar as well, half leave it to be derived.
    for o in list(chosen):
        if o in MULTI_SCALAR and MULTI_SCALAR[o] not in chosen and rng.random() < 0.5:
            chosen.append(MULTI_SCALAR[o])
    for o in chosen:
        path, unit, fam, cats = REACTOR_OPTIONS[o]
        if fam == 'cat':
            opts[o] = {'t': 'str', 'v': rng.choice(cats)}
        elif fam == 'bool':
            opts[o] = {'t': 'bool', 'v': rng.random() < 0.5}
        elif fam == 'int':
            t = dom if dom in ('int', 'np.int64') else rng.choice(['int', 'int', 'np.int64'])
            opts[o] = {'t': t, 'v': rng.randint(1, 50)}
        elif fam == 'strlist':
            pool = ['r_0001', 'r_0002', 'u_0007'] if o == 'reactions_SA' else ['H2', 'N2(T)', 'NH3']
            if rng.random() < 0.4:
                # ids / names given as strings and as objects carrying them, in one list
                kind = 'obj:reaction' if o == 'reactions_SA' else 'obj:species'
                picks = rng.sample(pool, rng.randint(2, 3))
                forms = [kind] + [rng.choice(['str', kind]) for _ in picks[1:]]
                rng.shuffle(forms)
                opts[o] = {'t': 'mixlist', 'v': [{'t': f, 'v': x} for f, x in zip(forms, picks)]}
            else:
                opts[o] = {'t': 'strlist', 'v': rng.sample(pool, rng.randint(1, 3))}
        elif fam == 'numlist':
            n = rng.randint(1, 3)
            if force.get('mixlist', rng.random() < 0.4):
                # element-wise mixed forms: Python and NumPy numbers and (for unit-bearing options)
                # strings that carry their own unit, in one list
                n = rng.randint(2, 4)
                forms = list(NUM_TYPES) + (['str', 'str', 'str'] if unit is not None else [])
                while True:
                    ts = [rng.choice(forms) for _ in range(n)]
                    if len(set(ts)) >= 2:
                        break
                els = []
                for t in ts:
                    if t == 'str':
                        els.append({'t': 'str', 'v': '%s %s' % (_num_value(rng, 'float'),
                                                                rng.choice(SI_STR_UNITS[o]))})
                    else:
                        els.append({'t': t, 'v': _num_value(rng, t)})
                opts[o] = {'t': 'mixlist', 'v': els}
            elif unit is not None and (dom == 'str' or (dom == 'mixed' and rng.random() < 0.3)):
                u = rng.choice(SI_STR_UNITS[o])
                opts[o] = {'t': 'strlist_units', 'v': ['%s %s' % (_num_value(rng, 'float'), u) for _ in range(n)]}
            else:
                t = 'int' if dom == 'int' else 'float'
                opts[o] = {'t': 'list:' + t, 'v': [_num_value(rng, t) for _ in range(n)]}
        else:
            t = dom
            if dom == 'mixed':
                t = rng.choice(NUM_TYPES + ['str'])
            if t == 'str':
                if unit is None:
                    t = 'float'
                else:
                    u = rng.choice(SI_STR_UNITS[o])
                    opts[o] = {'t': 'str', 'v': '%s %s' % (_num_value(rng, 'float'), u)}
                    continue
            opts[o] = {'t': t, 'v': _num_value(rng, t)}
    phases = force.get('phases')
    if phases is None:
        phases = rng.choices(['empty', 'objects', 'omitted'], [5, 4, 1])[0]
    generic = {}
    if rng.random() < 0.15:
        generic['reactor'] = {'mode': 'isothermal'}
    if rng.random() < 0.1:
        generic['misc'] = {'x_custom': 3}
    return {'kind': 'reactor', 'units': gen_units(rng) if with_units else None,
            'units_as': rng.choice(['object', 'dict']), 'options': opts, 'phases': phases,
            'generic': generic}


# ------------------------------------------------------------------ factories
class Model:
    """Real pMuTT objects of a ``model`` spec."""
    pass


def units_arg(spec):
    from pmutt.omkm.units import Units
    if spec['units'] is None or spec.get('units_as') == 'none':
        return None
    if spec.get('units_as') == 'dict':
        return dict(spec['units'])
    return Units(**spec['units'])


def build_model_objects(spec):
    """Species, BEPs, reactions, interactions (no phases yet)."""
    from pmutt.omkm.reaction import SurfaceReaction, BEP
    from pmutt.mixture.cov import PiecewiseCovEffect
    M = Model()
    M.sp = {s['name']: build_species(s) for s in spec['species']}
    M.ts = {s['name']: build_species(s) for s in spec.get('ts_species', [])}
    M.species_list = [M.sp[s['name']] for s in spec['species']]
    M.beps = [BEP(slope=b['slope'], intercept=b['intercept'], name=b['name'], direction=b['direction'],
                  descriptor=b['descriptor']) for b in spec['beps']]
    M.reactions = []
    for rx in spec['reactions']:
        kw = dict(reactants=[M.sp[n] for n, _ in rx['reactants']],
                  reactants_stoich=[st for _, st in rx['reactants']],
                  products=[M.sp[n] for n, _ in rx['products']],
                  products_stoich=[st for _, st in rx['products']],
                  is_adsorption=rx['is_adsorption'], id=rx['id'], A=rx['A'], beta=rx['beta'], Ea=rx['Ea'],
                  sticking_coeff=rx['sticking_coeff'], direction=rx['direction'])
        if rx['ts']:
            if 'bep' in rx['ts']:
                kw['transition_state'] = [M.beps[rx['ts']['bep']]]
            else:
                kw['transition_state'] = [M.ts[rx['ts']['species']]]
            kw['transition_state_stoich'] = [1]
        M.reactions.append(SurfaceReaction(**kw))
    M.interactions = [PiecewiseCovEffect(name_i=i['name_i'], name_j=i['name_j'], intervals=list(i['intervals']),
                                         slopes=list(i['slopes']), name=i['name'])
                      for i in spec['interactions']]
    return M


def phase_kwargs(spec, p, M, by_name, with_species):
    """Constructor keyword arguments of one phase (construct / incremental mode)."""
    kw = {'name': p['name']}
    if with_species:
        kw['species'] = [M.sp[n] for n in p['species']]
    if p.get('note') is not None:
        kw['note'] = p['note']
    if p['type'] == 'StoichSolid':
        kw['density'] = p['density']
    if p['type'] == 'InteractingInterface':
        kw['site_density'] = p['site_density']
        kw['phases'] = [by_name[n] for n in p['phases']] if p['phases_as'] == 'objects' else list(p['phases'])
        rx = [M.reactions[i] for i, r in enumerate(spec['reactions']) if r['phase'] == p['name']]
        ia = [M.interactions[i] for i, r in enumerate(spec['interactions']) if r['phase'] == p['name']]
        kw['reactions'] = rx or None
        kw['interactions'] = ia or None
    return kw


def phase_class(t):
    from pmutt.omkm import phase as ph
    return getattr(ph, t)


def organize_data(spec):
    out = []
    for p in spec['phases']:
        d = {'name': p['name'], 'phase_type': p['type']}
        if p.get('note') is not None:
            d['note'] = p['note']
        if p['type'] == 'StoichSolid':
            d['density'] = p['density']
        if p['type'] == 'InteractingInterface':
            d['site_density'] = p['site_density']
            d['phases'] = list(p['phases'])
        out.append(d)
    return out


def _sa_object(kind, ident):
    """a real pMuTT object that carries the id / name (sensitivity-analysis lists accept objects)"""
    import random
    from pmutt.omkm.reaction import SurfaceReaction
    rng = random.Random('C07-sa')
    if kind == 'obj:species':
        return build_species(gen_species_spec(rng, ident, 'Nasa', 'S', {'H': 1}, 1))
    a = build_species(gen_species_spec(rng, 'A(S)', 'Nasa', 'S', {'H': 1}, 1))
    b = build_species(gen_species_spec(rng, 'B(S)', 'Nasa', 'S', {'H': 1}, 1))
    return SurfaceReaction(reactants=[a], reactants_stoich=[1], products=[b], products_stoich=[1], id=ident)


def reactor_kwargs(spec):
    """Keyword arguments of write_yaml with values of the requested python / NumPy type."""
    import numpy as np
    conv = {'float': float, 'int': int, 'np.float64': np.float64, 'np.int64': np.int64,
            'np.float32': np.float32, 'str': str, 'bool': bool}
    kw = {}
    for o, d in spec['options'].items():
        t, v = d['t'], d['v']
        if t in conv:
            kw[o] = conv[t](v)
        elif t in ('strlist', 'strlist_units'):
            kw[o] = list(v)
        elif t.startswith('list:'):
            kw[o] = [conv[t[5:]](x) for x in v]
        elif t == 'mixlist':
            kw[o] = [_sa_object(e['t'], e['v']) if e['t'].startswith('obj:') else conv[e['t']](e['v'])
                     for e in v]
        else:
            raise ValueError(t)
    for k, v in spec.get('generic', {}).items():
        kw[k] = dict(v)
    return kw

"""Random *well-formed* Chemkin mechanisms as plain-JSON specs, and the factory that builds
the real pMuTT objects (CatSite, Nasa, ChemkinReaction, Reactions) from a spec.

Chemistry model
---------------
Molecules are multisets of the atoms H, C, O, N.  Every catalyst site k has a metal M_k, a
vacant-site species `M(Sk)` (elements {M:1}, occupies 1 site) and a bulk species `M(Bk)`
(elements {M:1}); an adsorbate is a molecule bound to site k occupying n = 1..3 sites, its
elements are those of the molecule (the bundled NH3 example uses the same book keeping:
`H2 + 2RU(S) = 2H(S) + 2RU(B)`).  Reaction templates (all element balanced and site
balanced, every stoichiometric coefficient an integer 1..3):

  gas        AB = A + B | A + B = AB | nA = A_n              all species gaseous
  ads        X + n M(S) = X(S) + n M(B)                      is_adsorption=True, sticking coefficient
  ads_plain  same equation, is_adsorption=False              (rate from kB/h / sden^(n-1))
  ads_diss   X2 + 2 M(S) = 2 X(S) + 2 M(B)                   dissociative, sticking
  des        X(S) + n M(B) = X + n M(S)
  surf       AB(S) + m M(S) = A(S) + B(S) + m M(B)  (m<0: vacant/bulk swap sides) and the reverse
  diff       A(S1) + n2 M2(S2) + n1 M1(B1) = A(S2) + n1 M1(S1) + n2 M2(B2)   (two sites)

A surface step therefore always has surface species on both sides and a gas step has none,
so "all species gaseous" and "all reactants gaseous" coincide.  Phase letters are the
upper-case thermdat letters 'G' / 'S' (bulk species carry 'S' and are recognised through
CatSite.bulk_specie, as in the bundled example).  A transition state is a Nasa species of its
own (elements of the left-hand side; gas phase for gas steps, bound to the site otherwise).

Spec layout (everything JSON):
  sites      [{name, site_density, density, bulk_specie, metal, vacant}]
  species    [{Nasa spec as in vf.gen.species + 'site': k|None, 'n_sites': n|None, 'role': gas|inert|ads|vacant|bulk|ts}]
  reactions  [{kind, reactants [[name, nu]..], products [[name, nu]..], ts name|None, beta,
               is_adsorption, sticking_coeff, build 'ctor'|'from_string', stoich_type 'float'|'int'}]
"""
import math

from vf.gen import species as SG

ATOMS = ['C', 'H', 'O', 'N']
METALS = ['Pt', 'Ni', 'Ru', 'Cu', 'Pd', 'Fe']
SITE_NAMES = ['PT111', 'RU0001', 'TERRACE', 'STEP', 'NI(211)', 'FCC', 'TOP', 'SITE_ABCDEFGHIJK', 'X']
SITE_TAGS = ['S', 'T', 'X']
ACT_METHODS = ['get_E_act', 'get_EoRT_act', 'get_H_act', 'get_HoRT_act', 'get_G_act', 'get_GoRT_act']


def comp_name(comp):
    """{'C':1,'H':3,'O':1} -> 'CH3O' (Hill-like fixed order C H O N)."""
    out = ''
    for a in ATOMS:
        n = comp.get(a, 0)
        if n:
            out += a + (str(n) if n > 1 else '')
    q = comp.get('E', 0)                       # Chemkin electron element: cation E<0 -> ...P, anion -> ...M
    if q and not out:
        return 'E' * q if q > 0 else 'Q' * (-q)
    return out + ('M' * q if q > 0 else 'P' * (-q))


def is_charged(comp):
    return bool(comp.get('E', 0))


def sane(comp):
    """a molecule (>= 1 atom, all atom counts positive) with charge -1..+1, or the electron itself"""
    atoms = [n for a, n in comp.items() if a != 'E']
    if any(n < 0 for n in atoms):
        return False
    if not atoms:
        return comp.get('E', 0) == 1
    return abs(comp.get('E', 0)) <= 1


def comp_key(comp):
    return tuple(sorted((a, n) for a, n in comp.items() if n))


def comp_add(a, b, k=1):
    out = dict(a)
    for e, n in b.items():
        out[e] = out.get(e, 0) + k * n
    return {e: n for e, n in out.items() if n}


def comp_size(comp):
    return sum(comp.values())


def _coeffs(rng):
    """NASA-7 coefficients of realistic magnitude (Cp/R 1.5..12, |H/RT| <~ 60 at 1000 K,
    S/R of a few tens) so that entropies of activation stay far from exp() overflow."""
    a = [rng.uniform(1.5, 12.0), rng.uniform(-3, 3) * 1e-3, rng.uniform(-2, 2) * 1e-6,
         rng.uniform(-1, 1) * 1e-9, rng.uniform(-5, 5) * 1e-13,
         rng.uniform(-6e4, 6e4), rng.uniform(-35.0, 5.0)]
    return [float('%.10g' % v) for v in a]


def nasa_spec(rng, name, phase, elements, T_mid=None):
    spec = {'type': 'Nasa', 'name': name,
            'T_low': rng.choice([200.0, 250.0, 298.15]),
            'T_mid': T_mid if T_mid is not None else round(rng.uniform(500.0, 1200.0), 1),
            'T_high': rng.choice([1500.0, 2000.0, 3000.0]),
            'a_low': _coeffs(rng), 'a_high': _coeffs(rng), 'phase': phase, 'elements': dict(elements)}
    spec = SG.make_continuous_nasa(spec)
    spec['a_high'] = [float('%.12g' % v) for v in spec['a_high']]
    return spec


class _Builder:
    def __init__(self, rng, n_sites, max_species):
        self.rng = rng
        self.max_species = max_species
        self.sites = []
        self.species = {}            # name -> spec (insertion ordered)
        self.gas = {}                # comp_key -> name
        self.ads = {}                # (comp_key, k) -> name
        self.reactions = []
        self.seen = set()
        self.n_ts = 0
        metals = []
        for k in range(n_sites):
            if k and rng.random() < 0.35:
                metals.append(rng.choice(metals))           # step / terrace of the same metal
            else:
                metals.append(rng.choice([m for m in METALS if m not in metals]))
        names = rng.sample(SITE_NAMES, n_sites)
        for k in range(n_sites):
            M = metals[k].upper()
            tag = SITE_TAGS[k]
            site = {'name': names[k], 'site_density': SG.logu(rng, 1e-11, 1e-8, 6),
                    'density': round(rng.uniform(1.0, 25.0), rng.choice([1, 2, 3])),
                    'metal': metals[k], 'vacant': '%s(%s)' % (M, tag),
                    'bulk_specie': '%s(B%s)' % (M, '' if k == 0 else str(k + 1))}
            self.sites.append(site)

    # ---- species ----------------------------------------------------------
    def n_real(self):
        return sum(1 for s in self.species.values() if s['role'] != 'ts')

    def room(self, n=1):
        return self.n_real() + n <= self.max_species

    def _add(self, name, phase, elements, role, site=None, n_sites=None):
        spec = nasa_spec(self.rng, name, phase, elements)
        spec['role'] = role
        spec['site'] = site
        spec['n_sites'] = n_sites
        self.species[name] = spec
        return name

    def gas_sp(self, comp, create=True, role='gas'):
        key = comp_key(comp)
        if key in self.gas:
            return self.gas[key]
        if not create or not self.room():
            return None
        name = comp_name(comp)
        self.gas[key] = self._add(name, 'G', comp, role)
        return name

    def ads_sp(self, comp, k, create=True):
        key = (comp_key(comp), k)
        if key in self.ads:
            return self.ads[key]
        if not create or not self.room():
            return None
        name = '%s(%s)' % (comp_name(comp), SITE_TAGS[k])
        n = self.rng.choice([1, 1, 1, 2, 3])
        self.ads[key] = self._add(name, 'S', comp, 'ads', site=k, n_sites=n)
        return name

    def vacant(self, k):
        s = self.sites[k]
        if s['vacant'] not in self.species:
            if not self.room(2):
                return None
            self._add(s['vacant'], 'S', {s['metal']: 1}, 'vacant', site=k, n_sites=1)
            self._add(s['bulk_specie'], 'S', {s['metal']: 1}, 'bulk', site=k, n_sites=1)
        return s['vacant']

    def rand_comp(self, lo=1, hi=6):
        rng = self.rng
        n = rng.randint(lo, hi)
        comp = {}
        for _ in range(n):
            a = rng.choices(ATOMS, [3, 5, 2, 2])[0]
            comp[a] = comp.get(a, 0) + 1
        return comp

    @staticmethod
    def _triples(comps):
        keys = {comp_key(c) for c in comps}
        out = []
        for i, A in enumerate(comps):
            for B in comps[i:]:
                AB = comp_add(A, B)
                if AB and comp_key(AB) in keys:
                    out.append((A, B))
        return out

    def split(self, comp):
        """random partition of a composition into two non-empty parts"""
        atoms = [a for a, n in sorted(comp.items()) for _ in range(n)]
        self.rng.shuffle(atoms)
        cut = self.rng.randint(1, len(atoms) - 1)
        A, B = {}, {}
        for a in atoms[:cut]:
            A[a] = A.get(a, 0) + 1
        for a in atoms[cut:]:
            B[a] = B.get(a, 0) + 1
        return A, B

    # ---- reactions --------------------------------------------------------
    def _elements_of(self, side):
        tot = {}
        for name, nu in side:
            tot = comp_add(tot, self.species[name]['elements'], nu)
        return tot

    def add_reaction(self, kind, lhs, rhs, ts_site, want_ts, **extra):
        def merge(side):
            acc = {}
            for name, nu in side:
                if nu:
                    acc[name] = acc.get(name, 0) + nu
            return [[n, v] for n, v in acc.items()]
        lhs, rhs = merge(lhs), merge(rhs)
        if not lhs or not rhs:
            return False
        if any(v < 1 or v > 3 for _, v in lhs + rhs):
            return False
        if sum(v for _, v in lhs) > 6 or sum(v for _, v in rhs) > 6:
            return False
        key = (tuple(sorted(map(tuple, lhs))), tuple(sorted(map(tuple, rhs))))
        if key in self.seen or key[0] == key[1]:       # the reverse step is a different reaction
            return False
        # the equation string must stay well inside one line
        if sum(len(n) + 2 for n, _ in lhs + rhs) > 70:
            return False
        self.seen.add(key)
        el = self._elements_of(lhs)
        assert comp_key(el) == comp_key(self._elements_of(rhs)), (lhs, rhs)
        rng = self.rng
        ts = None
        if want_ts:
            self.n_ts += 1
            ts = 'TS%d' % self.n_ts + ('' if ts_site is None else '(%s)' % SITE_TAGS[ts_site])
            self._add(ts, 'G' if ts_site is None else 'S', el, 'ts', site=ts_site,
                      n_sites=None if ts_site is None else rng.choice([1, 2]))
        if rng.random() < 0.5:
            rng.shuffle(lhs)
            rng.shuffle(rhs)
        rx = {'kind': kind, 'reactants': lhs, 'products': rhs, 'ts': ts,
              'beta': rng.choice([0.0, 1.0, 1.0, round(rng.uniform(-2, 3), 3)]),
              'is_adsorption': False, 'sticking_coeff': None,
              'build': rng.choice(['ctor', 'ctor', 'from_string']),
              'stoich_type': rng.choice(['float', 'int'])}
        rx.update(extra)
        self.reactions.append(rx)
        return True

    def r_gas(self, want_ts):
        rng = self.rng
        mode = rng.choice(['split', 'split', 'assoc', 'multi', 'ion'])
        if mode == 'ion':
            # X = XP + E (ionisation) | X + E = XM (attachment), either direction: signed element counts
            neutral = [dict(k) for k in self.gas if not is_charged(dict(k))]
            X = rng.choice(neutral) if neutral and rng.random() < 0.7 else self.rand_comp(1, 4)
            sign = rng.choice([-1, -1, 1])
            ion = comp_add(X, {'E': 1}, sign)
            x, i, e = self.gas_sp(X), self.gas_sp(ion), self.gas_sp({'E': 1})
            if None in (x, i, e):
                return False
            lhs, rhs = ([[x, 1]], [[i, 1], [e, 1]]) if sign < 0 else ([[x, 1], [e, 1]], [[i, 1]])
            if rng.random() < 0.4:
                lhs, rhs = rhs, lhs
            return self.add_reaction('gas', lhs, rhs, None, want_ts)
        if mode == 'multi':
            A = self.rand_comp(1, 3)
            n = rng.choice([2, 3])
            big = {a: c * n for a, c in A.items()}
            a, b = self.gas_sp(A), self.gas_sp(big)
            if a is None or b is None:
                return False
            lhs, rhs = [[a, n]], [[b, 1]]
            if rng.random() < 0.5:
                lhs, rhs = rhs, lhs
            return self.add_reaction('gas', lhs, rhs, None, want_ts)
        pool = [dict(k) for k in self.gas if not is_charged(dict(k)) and sum(n for _, n in k) >= 2]
        small = [dict(k) for k in self.gas]
        neutral = [c for c in small if not is_charged(c)]
        closed = self._triples(small) if (rng.random() < 0.4 or not self.room(2)) else []
        if closed:
            A, B = rng.choice(closed)                         # A + B = AB among existing molecules (ions too)
            AB = comp_add(A, B)
        elif len(neutral) >= 2 and rng.random() < 0.4:
            A, B = rng.choice(neutral), rng.choice(neutral)   # recombine two existing molecules
            AB = comp_add(A, B)
        else:
            AB = rng.choice(pool) if pool and rng.random() < 0.6 else self.rand_comp(2, 7)
            A, B = self.split(AB)
        names = [self.gas_sp(c) for c in (AB, A, B)]
        if None in names:
            return False
        lhs, rhs = [[names[0], 1]], [[names[1], 1], [names[2], 1]]
        if mode == 'assoc':
            lhs, rhs = rhs, lhs
        return self.add_reaction('gas', lhs, rhs, None, want_ts)

    def _some_comp(self, prefer_gas=0.6, lo=1, hi=5):
        pool = [dict(k) for k in self.gas if any(a != 'E' for a, _ in k)]       # ions yes, the electron no
        if pool and self.rng.random() < prefer_gas:
            return self.rng.choice(pool)
        return self.rand_comp(lo, hi)

    def r_ads(self, want_ts, kind):
        rng = self.rng
        k = rng.randrange(len(self.sites))
        v = self.vacant(k)
        if v is None:
            return False
        b = self.sites[k]['bulk_specie']
        stick = rng.choice([0.0, 1.0, 0.5, round(rng.uniform(0, 1), 4), SG.logu(rng, 1e-6, 1.0, 4)])
        if kind == 'ads_diss':
            X = self.rand_comp(1, 3)
            X2 = {a: 2 * n for a, n in X.items()}
            g, a = self.gas_sp(X2), self.ads_sp(X, k)
            if g is None or a is None:
                return False
            n = self.species[a]['n_sites']
            if 2 * n > 3:
                return False
            return self.add_reaction(kind, [[g, 1], [v, 2 * n]], [[a, 2], [b, 2 * n]], k, want_ts,
                                     is_adsorption=True, sticking_coeff=stick)
        X = self._some_comp()
        g, a = self.gas_sp(X), self.ads_sp(X, k)
        if g is None or a is None:
            return False
        n = self.species[a]['n_sites']
        if kind == 'des':
            return self.add_reaction(kind, [[a, 1], [b, n]], [[g, 1], [v, n]], k, want_ts)
        if kind == 'ads_plain':
            return self.add_reaction(kind, [[g, 1], [v, n]], [[a, 1], [b, n]], k, want_ts)
        return self.add_reaction('ads', [[g, 1], [v, n]], [[a, 1], [b, n]], k, want_ts,
                                 is_adsorption=True, sticking_coeff=stick)

    def r_surf(self, want_ts):
        rng = self.rng
        k = rng.randrange(len(self.sites))
        v = self.vacant(k)
        if v is None:
            return False
        b = self.sites[k]['bulk_specie']
        pool = [dict(key) for (key, kk) in self.ads if kk == k and not is_charged(dict(key))
                and sum(n for _, n in key) >= 2]
        small = [dict(key) for (key, kk) in self.ads if kk == k]
        neutral = [c for c in small if not is_charged(c)]
        r = rng.random()
        closed = self._triples(small) if (r < 0.3 or not self.room(2)) else []
        if closed:
            A, B = rng.choice(closed)                         # A + B = AB among existing adsorbates
            AB = comp_add(A, B)
        elif len(neutral) >= 2 and r < 0.45:
            A, B = rng.choice(neutral), rng.choice(neutral)   # recombine two existing adsorbates
            AB = comp_add(A, B)
        elif r < 0.6:
            A = self.rand_comp(1, 2)
            B = dict(A)
            AB = comp_add(A, B)
        else:
            AB = rng.choice(pool) if pool and rng.random() < 0.6 else self.rand_comp(2, 6)
            A, B = self.split(AB)
        names = [self.ads_sp(c, k) for c in (AB, A, B)]
        if None in names:
            return False
        nAB, nA, nB = (self.species[n]['n_sites'] for n in names)
        m = nA + nB - nAB
        lhs = [[names[0], 1]]
        rhs = [[names[1], 1], [names[2], 1]]
        if m > 0:
            lhs.append([v, m]); rhs.append([b, m])
        elif m < 0:
            lhs.append([b, -m]); rhs.append([v, -m])
        if rng.random() < 0.5:
            lhs, rhs = rhs, lhs
        return self.add_reaction('surf', lhs, rhs, k, want_ts)

    def r_er(self, want_ts):
        """Eley-Rideal: A(gas) + B(S) + m M(S) = AB(S) + m M(B)  (m<0: vacant/bulk swap sides), or the
        reverse with the gas species as product; never an adsorption (sticking) step"""
        rng = self.rng
        k = rng.randrange(len(self.sites))
        v = self.vacant(k)
        if v is None:
            return False
        b = self.sites[k]['bulk_specie']
        A = self._some_comp(lo=1, hi=3)
        on_site = [dict(key) for (key, kk) in self.ads if kk == k]
        B = rng.choice(on_site) if on_site and rng.random() < 0.7 else self.rand_comp(1, 3)
        AB = comp_add(A, B)
        if not sane(AB):
            return False
        g, sB, sAB = self.gas_sp(A), self.ads_sp(B, k), self.ads_sp(AB, k)
        if None in (g, sB, sAB):
            return False
        m = self.species[sAB]['n_sites'] - self.species[sB]['n_sites']
        lhs, rhs = [[g, 1], [sB, 1]], [[sAB, 1]]
        if m > 0:
            lhs.append([v, m]); rhs.append([b, m])
        elif m < 0:
            lhs.append([b, -m]); rhs.append([v, -m])
        if rng.random() < 0.35:
            lhs, rhs = rhs, lhs
        return self.add_reaction('er', lhs, rhs, k, want_ts)

    def r_diff(self, want_ts):
        rng = self.rng
        if len(self.sites) < 2:
            return False
        k1, k2 = rng.sample(range(len(self.sites)), 2)
        v1, v2 = self.vacant(k1), self.vacant(k2)
        if v1 is None or v2 is None:
            return False
        pool = [dict(key) for (key, kk) in self.ads if kk == k1]
        X = rng.choice(pool) if pool and rng.random() < 0.7 else self.rand_comp(1, 4)
        a1, a2 = self.ads_sp(X, k1), self.ads_sp(X, k2)
        if a1 is None or a2 is None:
            return False
        n1, n2 = self.species[a1]['n_sites'], self.species[a2]['n_sites']
        b1, b2 = self.sites[k1]['bulk_specie'], self.sites[k2]['bulk_specie']
        lhs = [[a1, 1], [v2, n2], [b1, n1]]
        rhs = [[a2, 1], [v1, n1], [b2, n2]]
        return self.add_reaction('diff', lhs, rhs, k2, want_ts)


PROFILES = ['mixed', 'mixed', 'mixed', 'surface', 'gas', 'tiny']


def gen_mechanism(rng, profile=None, ts_mode=None, n_sites=None, n_rxn=None, max_species=None,
                  carry='random', zero_fill='random', species_order=None):
    """Returns {'sites', 'species', 'reactions', 'profile', 'ts_mode'}."""
    profile = profile or rng.choice(PROFILES)
    ts_mode = ts_mode or rng.choice(['mixed', 'mixed', 'all', 'none'])
    n_sites = n_sites or rng.choice([1, 1, 2, 2, 3])
    if n_rxn is None:
        n_rxn = rng.randint(1, 3) if profile == 'tiny' else rng.choice([rng.randint(2, 12), rng.randint(8, 40)])
    max_species = max_species or (rng.randint(4, 8) if profile == 'tiny' else rng.choice([rng.randint(8, 30), 30]))
    b = _Builder(rng, n_sites, max_species)
    weights = {'mixed': {'gas': 3, 'ads': 3, 'ads_plain': 1, 'ads_diss': 1, 'des': 1, 'surf': 5, 'diff': 2, 'er': 2},
               'surface': {'gas': 0, 'ads': 3, 'ads_plain': 1, 'ads_diss': 1, 'des': 1, 'surf': 6, 'diff': 2, 'er': 2},
               'gas': {'gas': 1, 'ads': 0, 'ads_plain': 0, 'ads_diss': 0, 'des': 0, 'surf': 0, 'diff': 0, 'er': 0},
               'tiny': {'gas': 2, 'ads': 2, 'ads_plain': 1, 'ads_diss': 1, 'des': 1, 'surf': 2, 'diff': 1,
                        'er': 1}}[profile]
    kinds = list(weights)
    tries = 0
    while len(b.reactions) < n_rxn and tries < 40 * n_rxn + 50:
        tries += 1
        kind = rng.choices(kinds, [weights[k] for k in kinds])[0]
        want_ts = {'all': True, 'none': False}.get(ts_mode, rng.random() < 0.5)
        if kind == 'gas':
            b.r_gas(want_ts)
        elif kind in ('ads', 'ads_plain', 'ads_diss', 'des'):
            b.r_ads(want_ts, kind)
        elif kind == 'surf':
            b.r_surf(want_ts)
        elif kind == 'er':
            b.r_er(want_ts)
        else:
            b.r_diff(want_ts)
    while not b.reactions:                      # species budget too tight for the first draws
        b.max_species += 3
        if profile == 'gas' or not b.r_ads(ts_mode == 'all', 'ads'):
            b.r_gas(ts_mode == 'all')
    # inert gas spectators (in the species list, in no reaction)
    for el in rng.sample(['Ar', 'He'], rng.choice([0, 0, 1, 2])):
        if b.room() and b.n_real() >= 2:
            b._add(el.upper(), 'G', {el: 1}, 'inert')
    if b.n_real() < 2:
        b.gas_sp(b.rand_comp(1, 3))
    species = list(b.species.values())
    # (i) species records made from one table: gas species carry a catalyst site (and n_sites) as well
    draw = rng.choice([None, None, 'table', 'some'])
    carry = draw if carry == 'random' else carry
    k0 = rng.randrange(len(b.sites))
    for sp in species:
        if sp['role'] in ('gas', 'inert') and carry and (carry == 'table' or rng.random() < 0.5):
            sp['carry_site'] = k0 if (carry == 'table' or rng.random() < 0.7) else rng.randrange(len(b.sites))
            sp['carry_n_sites'] = rng.choice([None, 1, 1, 2])
    # (ii) zero-filled element columns (spreadsheet style), optionally an element that is zero everywhere
    draw = rng.choice([None, None, 'all', 'some'])
    fill = draw if zero_fill == 'random' else zero_fill
    if fill:
        universe = sorted({e for sp in species for e in sp['elements']})
        if rng.random() < 0.4:
            universe.append(rng.choice(['S', 'Cl']))             # nobody contains it
        for sp in species:
            if fill == 'all' or rng.random() < 0.4:
                for e in universe:
                    if fill == 'all' or rng.random() < 0.5:
                        sp['elements'].setdefault(e, 0)
    # (iii) order of the species records
    draw = rng.choice(['creation', 'shuffled', 'reversed'])
    order = species_order or draw
    if order == 'shuffled':
        rng.shuffle(species)
    elif order == 'reversed':
        species.reverse()
    return {'sites': b.sites, 'species': species, 'reactions': b.reactions,
            'profile': profile, 'ts_mode': ts_mode, 'carry': carry, 'zero_fill': fill, 'species_order': order}


def gen_conditions(rng, mech, n_runs=None):
    """1-8 runs of T, P, Q, abyv and mole fractions."""
    n = n_runs or rng.choice([1, 2, 3, 3, 5, 8, rng.randint(1, 8)])
    mids = [s['T_mid'] for s in mech['species']]
    T = []
    for _ in range(n):
        r = rng.random()
        if r < 0.15:
            T.append(rng.choice(mids))                   # exactly at a species' T_mid
        elif r < 0.25:
            T.append(rng.choice([298.15, 300.0, 1500.0]))
        else:
            T.append(round(rng.uniform(300.0, 1500.0), 2))
    P = [SG.logu(rng, 0.01, 100.0, 5) for _ in range(n)]
    Q = [SG.logu(rng, 0.1, 1e4, 5) for _ in range(n)]
    abyv = [SG.logu(rng, 1.0, 1e4, 5) for _ in range(n)]
    real = [s for s in mech['species'] if s['role'] != 'ts']
    gas = [s['name'] for s in real if s['role'] in ('gas', 'inert')]
    surf = [s['name'] for s in real if s['role'] in ('ads', 'vacant')]
    chosen = rng.sample(gas, rng.randint(1, min(len(gas), 6))) if gas else []
    chosen += rng.sample(surf, rng.randint(1, min(len(surf), 4))) if surf else []
    if not chosen:
        chosen = [real[0]['name']]
    fracs = []
    for _ in range(n):
        d = {}
        w = [rng.random() for _ in chosen]
        tot = sum(w) or 1.0
        for name, x in zip(chosen, w):
            r = rng.random()
            if r < 0.15:
                continue                                  # not specified in this run -> 0
            d[name] = 0.0 if r < 0.25 else (1.0 if r < 0.3 else round(x / tot, rng.choice([3, 4, 6])))
        fracs.append(d)
    if not any(fracs):
        fracs[0][chosen[0]] = 1.0
    # species that are listed, but with a mole fraction of exactly 0 in every run where they appear
    if len(chosen) >= 2 and rng.random() < 0.5:
        for name in rng.sample(chosen, rng.choice([1, 1, 2]) if len(chosen) > 2 else 1):
            for d in fracs:
                if rng.random() < 0.7:
                    d[name] = 0.0
                else:
                    d.pop(name, None)
            rng.choice(fracs)[name] = 0.0
    return {'T': T, 'P': P, 'Q': Q, 'abyv': abyv, 'mole_fracs': fracs}


def gen_history(rng, mech):
    """Edits of the model between two writes of the SAME objects (parameter sweep / corrected
    value): [{'op': 'site_density'|'density', 'site': k, 'value': v}, {'op': 'sticking'|'beta',
    'rx': i, 'value': v}, {'op': 'poly', 'species': name, 'dH': K, 'dS': -, 'how': 'inplace'|'assign'}]"""
    ops = []
    used = sorted({s['site'] for s in mech['species'] if s['role'] in ('ads', 'vacant')})
    if used and rng.random() < 0.85:
        for k in rng.sample(used, rng.randint(1, len(used))):
            old = mech['sites'][k]['site_density']
            ops.append({'op': 'site_density', 'site': k,
                        'value': SG.logu(rng, 1e-11, 1e-8, 6) if rng.random() < 0.6 else
                        float('%.6g' % (old * rng.choice([0.1, 0.5, 2.0, 3.0])))})
    if used and rng.random() < 0.4:
        ops.append({'op': 'density', 'site': rng.choice(used), 'value': round(rng.uniform(1.0, 25.0), 2)})
    ads = [i for i, r in enumerate(mech['reactions']) if r['is_adsorption']]
    if ads and rng.random() < 0.6:
        ops.append({'op': 'sticking', 'rx': rng.choice(ads), 'value': rng.choice([0.0, 1.0, round(rng.uniform(0, 1), 4)])})
    if rng.random() < 0.6:
        ops.append({'op': 'beta', 'rx': rng.randrange(len(mech['reactions'])), 'value': round(rng.uniform(-2, 3), 3)})
    if rng.random() < 0.6:
        for sp in rng.sample(mech['species'], min(len(mech['species']), rng.randint(1, 3))):
            ops.append({'op': 'poly', 'species': sp['name'], 'dH': round(rng.uniform(-8e3, 8e3), 1),
                        'dS': round(rng.uniform(-3, 3), 3), 'how': rng.choice(['inplace', 'assign'])})
    rng.shuffle(ops)
    return ops


def apply_history_to_spec(mech, ops):
    """-> edited deep copy of the mechanism spec (the model after the edits)"""
    import copy
    m = copy.deepcopy(mech)
    by_name = {s['name']: s for s in m['species']}
    for op in ops:
        if op['op'] in ('site_density', 'density'):
            m['sites'][op['site']][op['op']] = op['value']
        elif op['op'] == 'sticking':
            m['reactions'][op['rx']]['sticking_coeff'] = op['value']
        elif op['op'] == 'beta':
            m['reactions'][op['rx']]['beta'] = op['value']
        elif op['op'] == 'poly':
            s = by_name[op['species']]
            for key in ('a_low', 'a_high'):
                s[key] = list(s[key])
                s[key][5] += op['dH']
                s[key][6] += op['dS']
    return m


def apply_history_to_objects(mech, objs, ops):
    """the same edits on the live pMuTT objects (attributes are public and documented)"""
    import numpy as np
    for op in ops:
        if op['op'] in ('site_density', 'density'):
            setattr(objs['sites'][op['site']], op['op'], op['value'])
            for s in mech['species']:
                if s.get('site') == op['site'] or s.get('carry_site') == op['site']:
                    setattr(objs['species'][s['name']].cat_site, op['op'], op['value'])
        elif op['op'] == 'sticking':
            objs['reactions'][op['rx']].sticking_coeff = op['value']
        elif op['op'] == 'beta':
            objs['reactions'][op['rx']].beta = op['value']
        elif op['op'] == 'poly':
            sp = objs['species'][op['species']]
            if op['how'] == 'inplace':
                for a in (sp.a_low, sp.a_high):
                    a[5] += op['dH']
                    a[6] += op['dS']
            else:
                for key in ('a_low', 'a_high'):
                    a = np.array(getattr(sp, key), dtype=float)
                    a[5] += op['dH']
                    a[6] += op['dS']
                    setattr(sp, key, a)


# ------------------------------------------------------------------------- factory
def build_mechanism(mech, site_objs='shared', reactions_arg='list'):
    """-> dict(sites=[CatSite], species={name: Nasa}, reactions=[ChemkinReaction] (private copy),
    Reactions=Reactions, nasa_species=[non-TS Nasa in spec order], caller_list=the list object that
    was handed to Reactions (reactions_arg 'list'; 'tuple' / 'generator' hand over a tuple / a
    one-shot generator instead)."""
    from pmutt.chemkin import CatSite
    from pmutt.reaction import ChemkinReaction, Reactions

    def mk_site(s):
        return CatSite(name=s['name'], site_density=s['site_density'], density=s['density'],
                       bulk_specie=s['bulk_specie'])
    shared = [mk_site(s) for s in mech['sites']]
    species = {}
    for sp in mech['species']:
        extra = {}
        if sp.get('site') is not None:
            extra['cat_site'] = shared[sp['site']] if site_objs == 'shared' else mk_site(mech['sites'][sp['site']])
            if sp.get('n_sites') is not None:
                extra['n_sites'] = sp['n_sites']
        elif sp.get('carry_site') is not None:          # a gas species whose record names the mechanism's site
            k = sp['carry_site']
            extra['cat_site'] = shared[k] if site_objs == 'shared' else mk_site(mech['sites'][k])
            if sp.get('carry_n_sites') is not None:
                extra['n_sites'] = sp['carry_n_sites']
        core = {k: sp[k] for k in ('type', 'name', 'T_low', 'T_mid', 'T_high', 'a_low', 'a_high', 'phase',
                                   'elements')}
        species[sp['name']] = SG.build(core, **extra)
    reactions = []
    for rx in mech['reactions']:
        cast = float if rx.get('stoich_type', 'float') == 'float' else int
        kw = {'beta': rx['beta'], 'is_adsorption': rx['is_adsorption']}
        if rx['is_adsorption']:
            kw['sticking_coeff'] = rx['sticking_coeff']
        if rx.get('build') == 'from_string':
            def side(items):
                return ' + '.join(('%d%s' % (nu, n)) if nu != 1 else n for n, nu in items)
            s = side(rx['reactants']) + ' = '
            if rx['ts']:
                s += rx['ts'] + ' = '
            s += side(rx['products'])
            r = ChemkinReaction.from_string(s, species, **kw)
        else:
            r = ChemkinReaction(reactants=[species[n] for n, _ in rx['reactants']],
                                reactants_stoich=[cast(nu) for _, nu in rx['reactants']],
                                products=[species[n] for n, _ in rx['products']],
                                products_stoich=[cast(nu) for _, nu in rx['products']],
                                transition_state=[species[rx['ts']]] if rx['ts'] else None,
                                transition_state_stoich=[cast(1)] if rx['ts'] else None, **kw)
        reactions.append(r)
    nasa_species = [species[sp['name']] for sp in mech['species'] if sp['role'] != 'ts']
    caller_list = list(reactions)
    if reactions_arg == 'generator':
        container = Reactions(reactions=(r for r in caller_list))
    elif reactions_arg == 'tuple':
        container = Reactions(reactions=tuple(caller_list))
    else:
        container = Reactions(reactions=caller_list)
    return {'sites': shared, 'species': species, 'reactions': reactions, 'caller_list': caller_list,
            'Reactions': container, 'nasa_species': nasa_species}

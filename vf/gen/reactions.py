"""Reaction spec generator / factory shared by C04, C08, C09, C19.

spec = {'cls': 'Reaction'|'ChemkinReaction'|'SurfaceReaction',
        'species': {name: species-spec}, 'reactants': [[name, nu]..], 'products': [...],
        'ts': [[name, nu]..] | None, 'extra': {constructor kwargs}}
"""
import inspect

from vf.gen import species as S

NAME_POOL = ['H2', 'CH2', 'O2', 'CO2', 'CO', 'O', 'H', 'OH', 'H2O', 'CH3OH', 'CH3', 'CH', 'C', 'N2', 'N', 'NH', 'NH2',
             'NH3', 'H2O(S)', 'CO(S)', 'O(S)', 'H(S)', 'OH(S)', 'PT(S)', 'PT(B)', 'CH3CH2OH', 'CH2OH', 'HCO', 'COOH']
STOICH = [0.25, 0.5, 0.75, 1, 1, 1, 1.5, 2, 2, 3, 4]
T_LO, T_HI = 100.0, 4000.0


def gen_empirical(rng, name, kind=None, phase=None):
    kind = kind or rng.choice(['Nasa', 'Nasa', 'Nasa9', 'Shomate'])
    phase = phase if phase is not None else rng.choice(['G', 'S'])
    if kind == 'Nasa':
        sp = S.gen_nasa(rng, name=name, phase=phase, style='realistic')
        sp['T_low'], sp['T_high'] = T_LO, T_HI
        sp['T_mid'] = round(rng.uniform(500, 2000), 1)
        sp = S.make_continuous_nasa(sp)
    elif kind == 'Nasa9':
        sp = S.gen_nasa9(rng, name=name, phase=phase, n_seg=rng.randint(1, 3), style='realistic')
        n = len(sp['nasas'])
        cuts = [T_LO] + sorted(round(rng.uniform(400, 3000), 1) for _ in range(n - 1)) + [T_HI]
        for i, seg in enumerate(sp['nasas']):
            seg['T_low'], seg['T_high'] = cuts[i], cuts[i + 1]
    else:
        sp = S.gen_shomate(rng, name=name, phase=phase, style='realistic',
                           units=rng.choice(['J/mol/K', 'J/mol/K', 'cal/mol/K', 'eV/K']))
        if sp['units'] != 'J/mol/K':
            f = {'cal/mol/K': 1 / 4.184, 'eV/K': 1.0364e-5}[sp['units']]
            sp['a'] = [float('%.10g' % (v * f)) for v in sp['a']]
        sp['T_low'], sp['T_high'] = T_LO, T_HI
    # moderate enthalpy offsets so that reaction energies stay within exp() range
    return sp


def gen_statmech_species(rng, name):
    sp = S.gen_statmech(rng, name=name, gas=rng.choice([True, False, None]),
                        vib_kinds=('HarmonicVib', 'HarmonicVib', 'QRRHOVib', 'EinsteinVib'))
    if sp.get('elec'):
        sp['elec']['potentialenergy'] = round(rng.uniform(-3, 0), 4)
    return sp


def shown(key):
    """name a species object carries: the spec key up to '~' (twins share a name, not the object)"""
    return key.split('~')[0]


def gen_reaction(rng, flavor=None, cls=None, ts=None, n_ts=None, twins=False):
    flavor = flavor or rng.choice(['statmech', 'mixed', 'empirical'])
    if cls is None:
        cls = rng.choice(['Reaction', 'Reaction', 'ChemkinReaction', 'SurfaceReaction']) \
            if flavor == 'empirical' else 'Reaction'
    nr, npd = rng.randint(1, 4), rng.randint(1, 4)
    if ts is None:
        ts = rng.random() < 0.6
    nts = (n_ts or rng.choice([1, 1, 1, 2])) if ts else 0
    # realistic names, many of them suffixes / prefixes / substrings of one another
    chosen = rng.sample(NAME_POOL, nr + npd + nts)
    rn, pn, tn = chosen[:nr], chosen[nr:nr + npd], [n + '_TS' for n in chosen[nr + npd:]]
    names = rn + pn + tn
    species = {}
    for nm in names:
        if flavor == 'statmech' or (flavor == 'mixed' and rng.random() < 0.4):
            species[nm] = gen_statmech_species(rng, nm)
        else:
            species[nm] = gen_empirical(rng, nm)
    def side(ns):
        return [[n, rng.choice(STOICH) if rng.random() < 0.8 else round(rng.uniform(0.25, 4), 2)] for n in ns]
    spec = {'cls': cls, 'flavor': flavor, 'species': species, 'reactants': side(rn),
            'products': side(pn), 'ts': side(tn) if nts else None, 'extra': {}}
    # occasionally the same species on both sides (a spectator) -- shares the object
    if rng.random() < 0.15 and npd > 1:
        del species[spec['products'][-1][0]]
        spec['products'][-1][0] = spec['reactants'][0][0]
    elif twins and rng.random() < 0.15:
        # two DIFFERENT species objects that carry the same name (gas-phase and adsorbed water both called
        # 'H2O', a Nasa and a StatMech model of one compound): a product or the TS is a twin of a reactant
        of = spec['reactants'][rng.randrange(nr)][0]
        key = of + '~2'
        tgt = spec['ts'] if (nts and rng.random() < 0.3) else spec['products']
        j = rng.randrange(len(tgt))
        if tgt[j][0] in species and tgt[j][0] != of:
            del species[tgt[j][0]]
            tgt[j][0] = key
            if flavor == 'statmech' or (flavor == 'mixed' and rng.random() < 0.4):
                species[key] = gen_statmech_species(rng, of)
            else:
                species[key] = gen_empirical(rng, of)
            spec['twin'] = key
    return spec


def build_reaction(spec, species_objs=None):
    from pmutt.reaction import Reaction, ChemkinReaction
    objs = species_objs or {n: S.build(s) for n, s in spec['species'].items()}
    kw = dict(reactants=[objs[n] for n, _ in spec['reactants']],
              reactants_stoich=[v for _, v in spec['reactants']],
              products=[objs[n] for n, _ in spec['products']],
              products_stoich=[v for _, v in spec['products']])
    if spec.get('ts'):
        kw['transition_state'] = [objs[n] for n, _ in spec['ts']]
        kw['transition_state_stoich'] = [v for _, v in spec['ts']]
    kw.update(spec.get('extra') or {})
    if spec['cls'] == 'Reaction':
        return Reaction(**kw), objs
    if spec['cls'] == 'ChemkinReaction':
        return ChemkinReaction(**kw), objs
    from pmutt.omkm.reaction import SurfaceReaction
    return SurfaceReaction(**kw), objs


def species_kwargs(name, cond):
    """What the property says one species sees: the global conditions plus the block
    addressed to it (independent of pmutt._get_specie_kwargs)."""
    out = {k: v for k, v in cond.items() if not k.endswith('_kwargs')}
    out.update(cond.get('%s_kwargs' % shown(name), {}))
    return out


def call_getter(obj, method, kwargs):
    """Call obj.method with the keyword arguments it accepts (own implementation)."""
    fn = getattr(obj, method)
    sig = inspect.signature(fn)
    if any(p.kind == p.VAR_KEYWORD for p in sig.parameters.values()):
        return fn(**kwargs)
    return fn(**{k: v for k, v in kwargs.items() if k in sig.parameters})


def state_sum(objs, side, method, cond, product=False):
    import numpy as np
    tot = 1.0 if product else 0.0
    mag = 0.0
    for name, nu in side:
        v = float(np.squeeze(call_getter(objs[name], method, species_kwargs(name, cond))))
        if product:
            tot *= v ** nu
        else:
            tot += nu * v
            mag += abs(nu * v)
    return tot, mag


def gen_conditions(rng, spec, with_blocks=True):
    cond = {'T': round(rng.uniform(250, 3500), 2)}
    if rng.random() < 0.7:
        cond['P'] = S.logu(rng, 1e-3, 1e2, 4)
    if with_blocks:
        names = sorted(set(shown(k) for k in spec['species']))
        for nm in rng.sample(names, min(len(names), rng.choice([0, 0, 1, 1, 2]))):
            cond['%s_kwargs' % nm] = {'P': S.logu(rng, 1e-3, 1e2, 4)}
    return cond

import sys
from vf.core import worker_main

if __name__ == '__main__':
    worker_main(sys.argv[1:])

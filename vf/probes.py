"""sys.monitoring probes (PEP 669).  Attach to *code objects*, so function objects,
their __code__ (which pMuTT introspects to route keyword arguments), signatures and
already-bound references stay untouched.  Callbacks record and return; they never
raise into the monitored code."""
import collections
import sys

TOOL = 4
mon = sys.monitoring
E = mon.events


def _code_of(fn):
    if isinstance(fn, property):
        fn = fn.fget
    if isinstance(fn, (classmethod, staticmethod)):
        fn = fn.__func__
    fn = getattr(fn, '__func__', fn)
    return fn.__code__


class Probes:
    def __init__(self):
        self.targets = {}          # code -> label
        self.on_call = {}          # code -> fn(label, locals)
        self.on_ret = {}           # code -> fn(label, retval, call_snapshot)
        self.calls = collections.Counter()
        self.case_calls = collections.Counter()
        self.absent = []
        self.stack = {}            # code -> [snapshots]
        self.events = []
        self.keep_events = False
        self.active = False

    def watch(self, getter, label, on_call=None, on_ret=None):
        """getter: zero-arg callable returning the function (so that a function that
        was refactored away is reported as absent, not as a crash)."""
        try:
            fn = getter()
            code = _code_of(fn)
        except Exception:
            self.absent.append(label)
            return False
        self.targets[code] = label
        if on_call:
            self.on_call[code] = on_call
        if on_ret:
            self.on_ret[code] = on_ret
        self.calls.setdefault(label, 0)
        return True

    def watch_setter(self, getter, label, **kw):
        def g():
            return getter().fset
        return self.watch(g, label, **kw)

    # --- callbacks
    def _start(self, code, off):
        label = self.targets.get(code)
        if label is None:
            return
        self.calls[label] += 1
        self.case_calls[label] += 1
        cb = self.on_call.get(code)
        snap = None
        if cb is not None:
            try:
                snap = cb(label, sys._getframe(1).f_locals)
            except Exception as e:           # never raise into monitored code
                snap = ('probe-error', repr(e))
        if code in self.on_ret:
            self.stack.setdefault(code, []).append(snap)
        if self.keep_events:
            self.events.append(('call', label))

    def _ret(self, code, off, ret):
        cb = self.on_ret.get(code)
        if cb is None:
            return
        st = self.stack.get(code)
        snap = st.pop() if st else None
        try:
            cb(self.targets[code], ret, snap)
        except Exception:
            pass

    def _unwind(self, code, off, exc):
        # global event: keep the snapshot stacks balanced when a watched call raises
        if code in self.on_ret:
            st = self.stack.get(code)
            if st:
                st.pop()

    def __enter__(self):
        if mon.get_tool(TOOL) is None:
            mon.use_tool_id(TOOL, 'verif')
        mon.register_callback(TOOL, E.PY_START, self._start)
        mon.register_callback(TOOL, E.PY_RETURN, self._ret)
        for code in self.targets:
            ev = E.PY_START
            if code in self.on_ret:
                ev |= E.PY_RETURN
            mon.set_local_events(TOOL, code, ev)
        if self.on_ret:
            mon.register_callback(TOOL, E.PY_UNWIND, self._unwind)
            mon.set_events(TOOL, E.PY_UNWIND)
        self.active = True
        return self

    def __exit__(self, *a):
        for code in self.targets:
            mon.set_local_events(TOOL, code, 0)
        mon.set_events(TOOL, 0)
        mon.register_callback(TOOL, E.PY_START, None)
        mon.register_callback(TOOL, E.PY_RETURN, None)
        mon.register_callback(TOOL, E.PY_UNWIND, None)
        mon.free_tool_id(TOOL)
        self.active = False
        return False

    def begin_case(self):
        self.case_calls.clear()
        self.events.clear()
        for st in self.stack.values():
            st.clear()

    def counts(self):
        return dict(self.calls)

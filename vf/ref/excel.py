"""Reference worksheet -> records reader for property C15.

Written from the DOCUMENTED rules of ``pmutt.io.excel`` (docstring of ``read_excel`` and
of every ``set_*`` helper, the ``presets`` docstring of ``pmutt.statmech``), not from
its control flow.  It is fed from the generator's own cell matrix (the header strings
and cell values exactly as they were written into the workbook) and never touches
pandas or openpyxl, so none of pandas' artefacts (``name.1`` renaming of repeated
headers, int -> float upcasting, object columns) can leak into the expectation.

Documented rules implemented here
---------------------------------
* one record (dict) per data row, in row order; empty cells are skipped;
* header text and string cells are trimmed;
* ``element.X`` / ``elements.X``   -> record['elements'][X] = value   (symbol = text after the
  last delimiter);
* ``formula``                      -> record['elements'] = composition of the formula;
* ``statmech_model``               -> record['model'] = StatMech plus every key of the named
  preset that was not given explicitly (name is case-insensitive: the spreadsheets of the
  documentation write ``IdealGas``, the presets table ``idealgas``);
* ``trans_model`` ... ``nucl_model`` -> record[<header>] = class of that name in the mode's
  module (``pmutt.statmech.trans`` ...), or ``EmptyMode``;
* ``vib_wavenumber`` (repeated)    -> record['vib_wavenumbers'] = [values in column order];
* ``rot_temperature`` (repeated)   -> record['rot_temperatures'] = [values in column order];
* ``nasa.a_low.i`` / ``nasa.a_high.i`` -> record['a_low'|'a_high'] = 7 coefficients, value at
  index i, unspecified ones 0;
* ``list.name`` (repeated) / ``list.name.i`` -> record[name] = [values in column order];
* ``dict.name.key``                -> record[name][key] = value;
* any other header                 -> record[header] = value.

Things the documentation is silent about are *not* decided here; the record says so:
``optional`` lists keys that may or may not be present (``model`` when only per-mode model
columns are filled, the ``required`` / ``optional`` bookkeeping tuples of a preset).
"""

DELIM = '.'

# classes are named symbolically (module below pmutt.statmech, class name); '' = the package
STATMECH = ('', 'StatMech')
EMPTYMODE = ('', 'EmptyMode')
CONSTANTMODE = ('', 'ConstantMode')

# the documented presets (pmutt.statmech.presets); bookkeeping keys left out on purpose
PRESETS = {
    'idealgas': {'model': STATMECH, 'trans_model': ('trans', 'FreeTrans'), 'n_degrees': 3,
                 'vib_model': ('vib', 'HarmonicVib'), 'elec_model': ('elec', 'GroundStateElec'),
                 'rot_model': ('rot', 'RigidRotor')},
    'harmonic': {'model': STATMECH, 'vib_model': ('vib', 'HarmonicVib'),
                 'elec_model': ('elec', 'GroundStateElec')},
    'electronic': {'model': STATMECH, 'elec_model': ('elec', 'GroundStateElec')},
    'placeholder': {'model': STATMECH, 'trans_model': EMPTYMODE, 'vib_model': EMPTYMODE,
                    'elec_model': EMPTYMODE, 'rot_model': EMPTYMODE, 'nucl_model': EMPTYMODE},
    'constant': {'model': STATMECH, 'elec_model': CONSTANTMODE},
}
PRESET_META_KEYS = ('required', 'optional')

# documented mode classes: which module(s) a per-mode model name is looked up in
MODE_CLASSES = {
    'trans_model': {'FreeTrans': 'trans'},
    'vib_model': {'HarmonicVib': 'vib', 'QRRHOVib': 'vib', 'EinsteinVib': 'vib', 'DebyeVib': 'vib'},
    'rot_model': {'RigidRotor': 'rot'},
    # ConstantMode (pmutt.statmech) is the electronic model of the library's own 'constant' preset and is
    # accepted by name in an elec_model column; the catalogue is fixed here on purpose (never derived from the
    # live module namespaces, which a change to the library could silently shrink)
    'elec_model': {'GroundStateElec': 'elec', 'LSR': 'lsr', 'ExtendedLSR': 'lsr', 'ConstantMode': ''},
    'nucl_model': {'EmptyNucl': 'nucl'},
}
MODE_HEADERS = tuple(MODE_CLASSES)

# substrings that make a header special for pMuTT (a generator of *ordinary* headers must avoid them)
SPECIAL_SUBSTRINGS = ('Unnamed', 'element', 'formula', 'atoms', 'statmech_model', 'trans_model',
                      'vib_model', 'rot_model', 'elec_model', 'nucl_model', 'vib_wavenumber',
                      'vib_outcar', 'rot_temperature', 'nasa', 'list.', 'dict.')
# record keys produced by special columns (ordinary headers / list / dict names must avoid them)
RESERVED_KEYS = ('elements', 'model', 'trans_model', 'vib_model', 'rot_model', 'elec_model',
                 'nucl_model', 'vib_wavenumbers', 'rot_temperatures', 'a_low', 'a_high',
                 'n_degrees', 'required', 'optional', 'atoms')


class RefError(Exception):
    """The sheet is outside what the reference reader defines (a generator bug)."""


class Cls(tuple):
    """Symbolic class reference (module, name)."""
    __slots__ = ()


class Arr(list):
    """Expected numeric array (NASA coefficients)."""


def classify(header):
    """family and parameters of a header *as written in the sheet* (already trimmed)."""
    h = header
    if h in ('formula', 'statmech_model', 'vib_wavenumber', 'rot_temperature') or h in MODE_HEADERS:
        return h, None
    parts = h.split(DELIM)
    if parts[0] in ('element', 'elements') and len(parts) == 2 and parts[1]:
        return 'element', parts[1]
    if parts[0] == 'nasa':
        if len(parts) == 3 and parts[1] in ('a_low', 'a_high') and parts[2].isdigit():
            return 'nasa', (parts[1], int(parts[2]))
        raise RefError('undefined nasa header %r' % header)
    if parts[0] == 'list':
        if len(parts) == 2 and parts[1]:
            return 'list', parts[1]
        if len(parts) == 3 and parts[1] and parts[2].isdigit():
            return 'list', parts[1]
        raise RefError('undefined list header %r' % header)
    if parts[0] == 'dict':
        if len(parts) == 3 and parts[1] and parts[2]:
            return 'dict', (parts[1], parts[2])
        raise RefError('undefined dict header %r' % header)
    if any(s in h for s in SPECIAL_SUBSTRINGS):
        raise RefError('header %r is neither ordinary nor a documented special header' % header)
    return 'ordinary', h


def parse_formula(text):
    """'H2O' -> {'H': 2, 'O': 1}: symbol = capital + lower-case letters, optional count."""
    out = {}
    i, n = 0, len(text)
    while i < n:
        if not text[i].isupper():
            raise RefError('formula %r outside the documented grammar' % text)
        j = i + 1
        while j < n and text[j].islower():
            j += 1
        k = j
        while k < n and text[k].isdigit():
            k += 1
        sym = text[i:j]
        if sym in out:
            raise RefError('formula %r repeats an element (documented as unsupported)' % text)
        out[sym] = int(text[j:k]) if k > j else 1
        i = k
    return out


def mode_class(header, name):
    table = MODE_CLASSES[header]
    if name in table:
        return Cls((table[name], name))
    if name.lower() == 'emptymode':
        return Cls(EMPTYMODE)
    raise RefError('%s=%r is not a documented model name' % (header, name))


def _clean(cell):
    if isinstance(cell, str):
        cell = cell.strip()
        if cell == '':
            raise RefError('blank-only string cell is undefined')
    return cell


def read_row(headers, row):
    """-> dict(values=..., optional=set, src={key: [column indices]}, family={key: family})"""
    values, src, family = {}, {}, {}
    optional = set()
    preset = None
    preset_col = None
    mode_cols = []

    def note(key, col, fam):
        src.setdefault(key, []).append(col)
        family[key] = fam

    for col, (raw_h, cell) in enumerate(zip(headers, row)):
        if cell is None:
            continue
        cell = _clean(cell)
        fam, par = classify(raw_h.strip())
        if fam == 'ordinary':
            values[par] = cell
            note(par, col, fam)
        elif fam == 'element':
            if not isinstance(values.get('elements'), dict):
                values['elements'] = {}
            values['elements'][par] = cell
            note('elements', col, fam)
        elif fam == 'formula':
            values['elements'] = parse_formula(cell)
            src.pop('elements', None)
            note('elements', col, fam)
        elif fam == 'statmech_model':
            name = cell.lower()
            if name not in PRESETS:
                raise RefError('unknown preset %r' % cell)
            preset, preset_col = name, col
        elif fam in MODE_HEADERS:
            values[fam] = mode_class(fam, cell)
            note(fam, col, fam)
            mode_cols.append(col)
        elif fam == 'vib_wavenumber':
            values.setdefault('vib_wavenumbers', []).append(cell)
            note('vib_wavenumbers', col, fam)
        elif fam == 'rot_temperature':
            values.setdefault('rot_temperatures', []).append(cell)
            note('rot_temperatures', col, fam)
        elif fam == 'nasa':
            key, i = par
            if not 0 <= i <= 6:
                raise RefError('nasa index out of range')
            if key not in values:
                values[key] = Arr([0.0] * 7)
            values[key][i] = cell
            note(key, col, fam)
        elif fam == 'list':
            values.setdefault(par, []).append(cell)
            note(par, col, fam)
        elif fam == 'dict':
            name, k = par
            values.setdefault(name, {})[k] = cell
            note(name, col, fam)
    if preset is not None:
        for key, val in PRESETS[preset].items():
            if key == 'model' or key not in values:
                values[key] = Cls(val) if isinstance(val, tuple) else val
                note(key, preset_col, 'statmech_model')
        optional.update(PRESET_META_KEYS)
    elif mode_cols:
        # undocumented but harmless: the per-mode setters also name the StatMech class
        optional.add('model')
    return {'values': values, 'optional': optional, 'src': src, 'family': family}


def read(headers, rows):
    for r in rows:
        if len(r) != len(headers):
            raise RefError('ragged matrix')
    return [read_row(headers, r) for r in rows]


def key_families(headers):
    """record key -> family for every column of the sheet (used to attribute a key that
    should not be in a record to the column family that leaked it)."""
    out = {}
    for raw_h in headers:
        fam, par = classify(raw_h.strip())
        if fam == 'ordinary':
            out[par] = fam
        elif fam in ('element', 'formula'):
            out['elements'] = fam
        elif fam == 'statmech_model':
            for p in PRESETS.values():
                for k in p:
                    out.setdefault(k, fam)
            for k in PRESET_META_KEYS:
                out.setdefault(k, fam)
        elif fam in MODE_HEADERS:
            out[fam] = fam
            out.setdefault('model', fam)
        elif fam == 'vib_wavenumber':
            out['vib_wavenumbers'] = fam
        elif fam == 'rot_temperature':
            out['rot_temperatures'] = fam
        elif fam == 'nasa':
            out[par[0]] = fam
        elif fam == 'list':
            out[par] = fam
        elif fam == 'dict':
            out[par[0]] = fam
    return out

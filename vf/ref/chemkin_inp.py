"""Independent reader for the Chemkin input decks pMuTT writes.

Written from the input-format descriptions, not from pMuTT's reader or writer:

* gas.inp   -- CHEMKIN-II/III gas-phase interpreter input (Kee, Rupley, Miller, SAND89-8009
  / SAND96-8216 ch. "Interpreter input"): free format, `!` starts a comment, sections
  ELEMENTS (ELEM) / SPECIES (SPEC) / THERMO / REACTIONS (REAC) each closed by END (or by the
  next section keyword); element and species names are blank separated, a name may be followed
  by slash delimited data (atomic weight).  In REACTIONS every line containing `=` is a
  reaction line: reaction expression followed by exactly three numbers (A, beta, E) -- the
  *last three* blank separated fields; blanks inside the expression are ignored; sides are
  separated by `<=>`, `=>` or `=`; species by `+`; a leading integer or real number of a term
  is its stoichiometric coefficient (species names do not start with a digit).  Lines without
  `=` are auxiliary data for the preceding reaction (keywords DUP, STICK, REV/../, COV/../ ...).
* surf.inp  -- SURFACE CHEMKIN interpreter input (Coltrin, Kee, Rupley, SAND90-8003 /
  SAND96-8217): `SITE/phase name/  SDEN/site density/` followed by species, each optionally
  with `/site occupancy/`; `BULK[/phase name/]` followed by species, each optionally with
  `/density/`; END closes the phase data (optional between phases); then
  `REACTIONS [MWON|MWOFF] [units keywords]` ... END with reaction lines as above.
* EAs.inp / EAg.inp, tube_mole.inp, T_flow.inp -- MultiInput files of the Vlachos-group
  reactor codes, format as documented in their header comments: first data line = number of
  reactions, then one line per reaction `expression  value(run 1) value(run 2) ...`, EOF;
  tube_mole: `itube_restart`, `number of nonzero species`, then `'name/phase/'  x1 x2 ...`,
  EOF;  T_flow: `T P Q abyv  !run` per line, EOF.

Numbers are returned as the *tokens* that were printed (strings) so that the caller can
check precision and format; nothing here evaluates a model.  Every deviation from the format
is collected in the `problems` list of the result, never raised.

Limits (stated as assumptions by the caller): species names contain no blank, `+`, `=`, `!`,
`/`, `'` and do not start with a digit, a `.` or a sign.
"""
import re

SECTION_KEYS = {'ELEMENTS': 'elements', 'ELEM': 'elements', 'SPECIES': 'species', 'SPEC': 'species',
                'THERMO': 'thermo', 'THERMODYNAMICS': 'thermo', 'REACTIONS': 'reactions', 'REAC': 'reactions'}
_NUM = re.compile(r'^[+-]?(\d+\.?\d*|\.\d+)([eEdD][+-]?\d+)?$')
_COEF = re.compile(r'^(\d+\.?\d*|\.\d+)')


def split_comment(line):
    i = line.find('!')
    if i < 0:
        return line, None
    return line[:i], line[i + 1:]


def is_number(tok):
    return bool(_NUM.match(tok))


def to_float(tok):
    return float(tok.replace('d', 'e').replace('D', 'E'))


def _keyword(tok):
    t = tok.upper()
    if t == 'END':
        return 'END'
    if t == 'EOF':
        return 'EOF'
    return SECTION_KEYS.get(t)


# ----------------------------------------------------------------------- expressions
def parse_side(text, problems):
    """'2A+B(S)' -> [('A', 2.0), ('B(S)', 1.0)] (order kept, repeats kept)."""
    out = []
    for term in text.split('+'):
        if term == '':
            problems.append('empty term in %r' % text)
            continue
        m = _COEF.match(term)
        if m:
            coef = float(m.group(1))
            name = term[m.end():]
        else:
            coef, name = 1.0, term
        if name == '':
            problems.append('coefficient without species in %r' % text)
            continue
        out.append((name, coef))
    return out


def parse_expression(expr):
    """Reaction expression -> dict(lhs, rhs, delim, problems).  Blanks are insignificant."""
    problems = []
    s = ''.join(expr.split())
    delim = None
    for d in ('<=>', '=>', '='):
        i = s.find(d)
        if i >= 0:
            delim = d
            break
    if delim is None:
        return {'lhs': [], 'rhs': [], 'delim': None, 'problems': ['no delimiter in %r' % expr], 'text': s}
    left, right = s[:i], s[i + len(delim):]
    if '=' in right:
        problems.append('more than one reaction delimiter in %r' % expr)
    return {'lhs': parse_side(left, problems), 'rhs': parse_side(right, problems), 'delim': delim,
            'problems': problems, 'text': s}


def merged(side):
    """Sum repeated species (Chemkin treats A+A as 2A); returns sorted tuple."""
    acc = {}
    for name, coef in side:
        acc[name] = acc.get(name, 0.0) + coef
    return tuple(sorted(acc.items()))


def canon(lhs, rhs):
    return (merged(lhs), merged(rhs))


# ----------------------------------------------------------------------- reaction section
def _reaction_line(body, problems, lineno):
    toks = body.split()
    if len(toks) < 4:
        problems.append('line %d: reaction line with fewer than 4 fields: %r' % (lineno, body))
        return None
    nums = toks[-3:]
    for t in nums:
        if not is_number(t):
            problems.append('line %d: Arrhenius field %r is not a number' % (lineno, t))
    e = parse_expression(' '.join(toks[:-3]))
    for p in e['problems']:
        problems.append('line %d: %s' % (lineno, p))
    return {'expr': e['text'], 'lhs': e['lhs'], 'rhs': e['rhs'], 'delim': e['delim'],
            'A': nums[0], 'beta': nums[1], 'Ea': nums[2], 'aux': [], 'line': lineno, 'raw': body.rstrip()}


def _parse_reactions_block(lines, start, res):
    """lines[start] is the REACTIONS line (comment already removed).  Returns index of the
    first line after the block."""
    problems = res['problems']
    head = lines[start][1].split()
    res['reactions_header'] = head[1:]
    res['sections'].append('reactions')
    i = start + 1
    closed = False
    while i < len(lines):
        lineno, body = lines[i]
        toks = body.split()
        i += 1
        if not toks:
            continue
        if '=' in body:
            r = _reaction_line(body, problems, lineno)
            if r is not None:
                res['reactions'].append(r)
            continue
        if toks[0].upper() == 'END':
            closed = True
            if len(toks) > 1:
                problems.append('line %d: text after END' % lineno)
            break
        if _keyword(toks[0]) in ('elements', 'species', 'thermo', 'reactions'):
            i -= 1
            break
        # auxiliary line
        if not res['reactions']:
            problems.append('line %d: auxiliary data %r before any reaction' % (lineno, body.strip()))
        else:
            res['reactions'][-1]['aux'].extend(t.upper() for t in toks)
    res['reactions_closed'] = closed
    if not closed:
        problems.append('REACTIONS section not closed by END')
    return i


def _code_lines(text):
    out = []
    comments = []
    for n, raw in enumerate(text.replace('\r\n', '\n').replace('\r', '\n').split('\n'), 1):
        body, com = split_comment(raw)
        if com is not None:
            comments.append((n, com))
        out.append((n, body))
    return out, comments


def _slash_items(body, problems, lineno):
    """Scan 'NAME/data/ NAME NAME/data/' -> [(NAME, data or None)]."""
    items = []
    i, n = 0, len(body)
    while i < n:
        if body[i].isspace():
            i += 1
            continue
        j = i
        while j < n and not body[j].isspace() and body[j] != '/':
            j += 1
        name = body[i:j]
        data = None
        if j < n and body[j] == '/':
            k = body.find('/', j + 1)
            if k < 0:
                problems.append('line %d: unterminated /data/ after %r' % (lineno, name))
                data = body[j + 1:]
                k = n
            else:
                data = body[j + 1:k]
            j = k + 1
        if name == '':
            problems.append('line %d: /data/ without a name' % lineno)
        items.append((name, data))
        i = j
    return items


# ----------------------------------------------------------------------- gas.inp
def parse_gas(text):
    res = {'elements': [], 'species': [], 'reactions': [], 'reactions_header': None, 'sections': [],
           'reactions_closed': None, 'problems': [], 'closed': {}}
    lines, _ = _code_lines(text)
    i = 0
    cur = None
    while i < len(lines):
        lineno, body = lines[i]
        toks = body.split()
        if toks and _keyword(toks[0]) == 'reactions':
            if cur is not None:
                res['closed'][cur] = False
                cur = None
            i = _parse_reactions_block(lines, i, res)
            continue
        i += 1
        for name, data in _slash_items(body, res['problems'], lineno):
            kw = _keyword(name) if data is None else None
            if kw == 'END':
                if cur is None:
                    res['problems'].append('line %d: END outside a section' % lineno)
                else:
                    res['closed'][cur] = True
                cur = None
            elif kw in ('elements', 'species', 'thermo'):
                if cur is not None:
                    res['closed'][cur] = False
                cur = kw
                res['sections'].append(kw)
            elif kw == 'EOF':
                res['problems'].append('line %d: EOF keyword in a Chemkin mechanism file' % lineno)
            elif cur in ('elements', 'species'):
                res[cur].append(name)
            elif cur == 'thermo':
                pass
            else:
                res['problems'].append('line %d: %r outside any section' % (lineno, name))
    if cur is not None:
        res['closed'][cur] = False
        res['problems'].append('%s section not closed by END' % cur)
    return res


# ----------------------------------------------------------------------- surf.inp
def parse_surf(text):
    res = {'sites': [], 'bulks': [], 'reactions': [], 'reactions_header': None, 'sections': [],
           'reactions_closed': None, 'problems': [], 'phase_data_closed': None}
    lines, _ = _code_lines(text)
    i = 0
    cur = None          # ('site', dict) | ('bulk', dict) | None
    open_phase = False
    while i < len(lines):
        lineno, body = lines[i]
        toks = body.split()
        if toks and _keyword(toks[0].split('/')[0]) == 'reactions':
            if open_phase:
                res['phase_data_closed'] = False
            cur = None
            open_phase = False
            i = _parse_reactions_block(lines, i, res)
            continue
        i += 1
        for name, data in _slash_items(body, res['problems'], lineno):
            up = name.upper()
            if up == 'SITE':
                cur = ('site', {'name': data, 'sden': None, 'species': [], 'line': lineno})
                res['sites'].append(cur[1])
                res['sections'].append('site')
                open_phase = True
            elif up == 'SDEN':
                if cur is None or cur[0] != 'site':
                    res['problems'].append('line %d: SDEN outside a SITE phase' % lineno)
                elif cur[1]['sden'] is not None:
                    res['problems'].append('line %d: second SDEN for site %r' % (lineno, cur[1]['name']))
                else:
                    cur[1]['sden'] = data
            elif up == 'BULK':
                cur = ('bulk', {'name': data, 'species': [], 'line': lineno})
                res['bulks'].append(cur[1])
                res['sections'].append('bulk')
                open_phase = True
            elif up == 'END' and data is None:
                cur = None                      # a redundant END (no phase open) is harmless
                open_phase = False
                res['phase_data_closed'] = True
            elif cur is None:
                res['problems'].append('line %d: %r outside SITE/BULK data' % (lineno, name))
            else:
                cur[1]['species'].append((name, data))
    if open_phase:
        res['phase_data_closed'] = False
        res['problems'].append('phase data not closed by END')
    return res


# ----------------------------------------------------------------------- MultiInput files
def _data_lines(text):
    lines, comments = _code_lines(text)
    data = [(n, b) for n, b in lines if b.strip() != '']
    return data, comments


def _run_header(comments, before_line):
    """Last comment line before `before_line` that consists of integers only."""
    hdr = None
    for n, com in comments:
        if before_line is not None and n >= before_line:
            break
        toks = com.split()
        if toks and all(re.match(r'^\d+$', t) for t in toks):
            hdr = [int(t) for t in toks]
    return hdr


def _split_eof(data, problems):
    body, eof, after = [], False, []
    for n, b in data:
        if eof:
            after.append(b.strip())
        elif b.strip().upper() == 'EOF':
            eof = True
        else:
            body.append((n, b))
    if not eof:
        problems.append('no EOF line')
    if after:
        problems.append('data after EOF')
    return body, eof


def parse_EA(text):
    res = {'declared': None, 'entries': [], 'eof': False, 'run_header': None, 'problems': []}
    data, comments = _data_lines(text)
    body, res['eof'] = _split_eof(data, res['problems'])
    if not body:
        res['problems'].append('no count line')
        return res
    first = body[0][1].split()
    if re.match(r'^\d+$', first[0]):
        res['declared'] = int(first[0])
        if len(first) > 1:
            res['problems'].append('extra fields on the count line')
    else:
        res['problems'].append('count line does not start with an integer: %r' % body[0][1])
    rest = body[1:]
    res['run_header'] = _run_header(comments, rest[0][0] if rest else None)
    for n, b in rest:
        toks = b.split()
        k = len(toks)
        while k > 0 and is_number(toks[k - 1]):
            k -= 1
        e = parse_expression(' '.join(toks[:k]))
        for p in e['problems']:
            res['problems'].append('line %d: %s' % (n, p))
        res['entries'].append({'expr': e['text'], 'lhs': e['lhs'], 'rhs': e['rhs'], 'delim': e['delim'],
                               'values': toks[k:], 'line': n})
    return res


def parse_tube_mole(text):
    res = {'itube_restart': None, 'declared': None, 'entries': [], 'eof': False, 'run_header': None,
           'problems': []}
    data, comments = _data_lines(text)
    body, res['eof'] = _split_eof(data, res['problems'])
    if len(body) < 2:
        res['problems'].append('missing itube_restart / species count lines')
        return res
    for key, (n, b) in zip(('itube_restart', 'declared'), body[:2]):
        t = b.split()
        if re.match(r'^\d+$', t[0]):
            res[key] = int(t[0])
        else:
            res['problems'].append('line %d: %s line does not start with an integer' % (n, key))
    rest = body[2:]
    res['run_header'] = _run_header(comments, rest[0][0] if rest else None)
    for n, b in rest:
        m = re.match(r"^\s*'([^']*)'\s*(.*)$", b)
        if not m:
            res['problems'].append('line %d: no quoted species/phase pair: %r' % (n, b))
            continue
        pair = m.group(1)
        parts = pair.split('/')
        if len(parts) != 3 or parts[2] != '' or parts[0] == '' or parts[1] == '':
            res['problems'].append("line %d: pair %r is not 'species/phase/'" % (n, pair))
            name, phase = (parts + [None, None])[:2]
        else:
            name, phase = parts[0], parts[1]
        vals = m.group(2).split()
        for v in vals:
            if not is_number(v):
                res['problems'].append('line %d: %r is not a number' % (n, v))
        res['entries'].append({'name': name, 'phase': phase, 'values': vals, 'line': n})
    return res


def parse_T_flow(text):
    res = {'runs': [], 'eof': False, 'problems': []}
    lines, _ = _code_lines(text)
    raw = text.replace('\r\n', '\n').replace('\r', '\n').split('\n')
    eof = False
    for (n, b), full in zip(lines, raw):
        if b.strip() == '':
            continue
        if eof:
            res['problems'].append('data after EOF')
            continue
        if b.strip().upper() == 'EOF':
            eof = True
            continue
        toks = b.split()
        _, com = split_comment(full)
        run = None
        if com is not None and re.match(r'^\s*\d+\s*$', com):
            run = int(com)
        if len(toks) != 4 or not all(is_number(t) for t in toks):
            res['problems'].append('line %d: expected four numbers, got %r' % (n, b))
        res['runs'].append({'values': toks, 'run': run, 'line': n})
    res['eof'] = eof
    if not eof:
        res['problems'].append('no EOF line')
    return res


# ----------------------------------------------------------------------- printed precision
_TOK = re.compile(r'^[+-]?(\d*)(?:\.(\d*))?(?:[eEdD]([+-]?\d+))?$')


def quantum(tok):
    """Half a unit in the last printed place of a number token."""
    m = _TOK.match(tok)
    if not m:
        raise ValueError(tok)
    ndec = len(m.group(2) or '')
    exp = int(m.group(3) or 0)
    return 0.5 * 10.0 ** (exp - ndec)

"""Textbook closed forms for the statistical-mechanical mode models (reference for C01/R7).

Written from the standard expressions (McQuarrie, *Statistical Mechanics*; Sandler, *An
Introduction to Applied Statistical Thermodynamics*; Grimme, Chem. Eur. J. 2012, 18, 9955 and
Li et al., J. Phys. Chem. C 2015, 119, 1840 for the quasi-RRHO interpolation as documented
in the QRRHOVib class docstring) -- not from pMuTT's source and without pmutt.constants.

All functions return *dimensionless* quantities per mole of formula units:
Cv/R, Cp/R, U/RT, H/RT, S/R, F/RT, G/RT, q  and the zero-point energy in eV.

Constants: CODATA 2014 recommended values (the set pMuTT's documentation tabulates: R = 8.3144598
J/mol/K, h = 6.626070040e-34 J s, kB = 8.6173303e-5 eV/K).  Derived constants (hc/kB, kB T/P,
mass per molecule) are computed here from the base values, so they differ from pMuTT's
rounded literals by <= 1e-8 relative; the R7 tolerance is set accordingly.
"""
import math

import numpy as np

H = 6.626070040e-34          # J s
KB = 1.38064852e-23          # J/K
NA = 6.022140857e23          # 1/mol
C_CM = 29979245800.0         # cm/s (exact)
E_CHARGE = 1.6021766208e-19  # C
KB_EV = 8.6173303e-5         # eV/K, CODATA 2014 tabulated value (KB / E_CHARGE = 8.61733034e-5)
R_J = KB * NA                # J/mol/K
C2 = H * C_CM / KB           # second radiation constant in cm K  (theta = C2 * wavenumber)
BAR = 1.0e5                  # Pa

QUANTS = ('CvoR', 'CpoR', 'UoRT', 'HoRT', 'SoR', 'FoRT', 'GoRT')


def _finish(d):
    """add F = U - S, G = H - S"""
    d['FoRT'] = d['UoRT'] - d['SoR']
    d['GoRT'] = d['HoRT'] - d['SoR']
    return d


# ---------------------------------------------------------------- empty
def empty():
    return _finish({'q': 1.0, 'CvoR': 0.0, 'CpoR': 0.0, 'UoRT': 0.0, 'HoRT': 0.0, 'SoR': 0.0})


# ---------------------------------------------------------------- translation
def free_trans(n_degrees, molecular_weight, T, P):
    """Ideal-gas translation with n translational degrees of freedom.  Equipartition gives
    Cv = n/2 R, U = n/2 RT, H = U + RT.  With the single-particle partition function
    q = (2 pi m kB T / h^2)^(n/2) * v  (v = kB T / P, the volume per molecule, as the FreeTrans
    docstring defines it for every n) the canonical ensemble gives S/R = ln q + 1 + n/2
    (S = U/T + k ln(q^N/N!) with Stirling); for n = 3 this is the Sackur-Tetrode equation
    S/R = 5/2 + ln[(2 pi m kB T/h^2)^(3/2) kB T/P]."""
    n = float(n_degrees)
    m = molecular_weight * 1.0e-3 / NA                          # kg per molecule
    lam = (2.0 * math.pi * m * KB * T / H ** 2) ** (n / 2.0)    # 1/Lambda^n
    v = KB * T / (P * BAR)                                      # volume per molecule
    d = {'CvoR': n / 2.0, 'CpoR': n / 2.0 + 1.0, 'UoRT': n / 2.0, 'HoRT': n / 2.0 + 1.0,
         'q': lam * v, 'SoR': 1.0 + n / 2.0 + math.log(lam * v)}
    return _finish(d)


# ---------------------------------------------------------------- vibrations
def used_wavenumbers(wavenumbers, imaginary_substitute=None):
    """Real (positive) wavenumbers are kept; imaginary ones (given as negative numbers) are
    dropped, or replaced by the substitute when one is set."""
    out = []
    for w in wavenumbers:
        if w > 0.0:
            out.append(float(w))
        elif imaginary_substitute is not None:
            out.append(float(imaginary_substitute))
    return out


def _ho_terms(x):
    """single harmonic oscillator, x = theta/T: (Cv/R, thermal U/RT, S/R)"""
    em = math.exp(-x)
    one_m = -math.expm1(-x)                  # 1 - e^-x
    cv = x * x * em / (one_m * one_m)
    uth = x * em / one_m
    s = uth - math.log(one_m)
    return cv, uth, s


def harmonic(wavenumbers, T, imaginary_substitute=None, include_ZPE=True):
    ws = used_wavenumbers(wavenumbers, imaginary_substitute)
    cv = u = s = 0.0
    lnq = 0.0
    for w in ws:
        x = C2 * w / T
        c1, uth, s1 = _ho_terms(x)
        cv += c1
        u += 0.5 * x + uth
        s += s1
        lnq += -math.log(-math.expm1(-x)) - (0.5 * x if include_ZPE else 0.0)
    d = {'CvoR': cv, 'CpoR': cv, 'UoRT': u, 'HoRT': u, 'SoR': s, 'lnq': lnq,
         'q': math.exp(lnq) if lnq > -700 else 0.0,
         'ZPE': 0.5 * KB_EV * C2 * sum(ws)}
    return _finish(d)


def qrrho(wavenumbers, T, Bav=1.0e-44, v0=100.0, alpha=4, imaginary_substitute=None):
    """Quasi-RRHO (Grimme 2012 entropy interpolation; Li et al. 2015 for U and Cv):
    w_i = 1/(1+(v0/v_i)^alpha);  S = sum w S_HO + (1-w) S_freerotor,
    S_freerotor/R = 1/2 + ln sqrt(8 pi^3 mu' kB T / h^2), mu' = mu Bav/(mu+Bav),
    mu = h/(8 pi^2 c v);  U/RT = sum w U_HO/RT + (1-w)/2;  Cv/R = sum w Cv_HO/R + (1-w)/2;
    ZPE = 1/2 kB sum w theta."""
    ws = used_wavenumbers(wavenumbers, imaginary_substitute)
    cv = u = s = zpe = 0.0
    for w in ws:
        x = C2 * w / T
        wt = 1.0 / (1.0 + (v0 / w) ** alpha)
        c1, uth, s1 = _ho_terms(x)
        mu = H / (8.0 * math.pi ** 2 * C_CM * w)
        mup = mu * Bav / (mu + Bav)
        s_rot = 0.5 + 0.5 * math.log(8.0 * math.pi ** 3 * mup * KB * T / H ** 2)
        cv += wt * c1 + 0.5 * (1.0 - wt)
        u += wt * (0.5 * x + uth) + 0.5 * (1.0 - wt)
        s += wt * s1 + (1.0 - wt) * s_rot
        zpe += 0.5 * KB_EV * wt * C2 * w
    return _finish({'CvoR': cv, 'CpoR': cv, 'UoRT': u, 'HoRT': u, 'SoR': s, 'q': None, 'ZPE': zpe})


def einstein(theta_E, T, u=0.0):
    """Einstein crystal, 3 identical oscillators per atom; u = interaction (cohesive) energy
    per atom in eV; u0 = u + 3/2 kB theta_E."""
    x = theta_E / T
    c1, uth, s1 = _ho_terms(x)
    zpe = u + 1.5 * KB_EV * theta_E
    U = zpe / (KB_EV * T) + 3.0 * uth
    return _finish({'CvoR': 3.0 * c1, 'CpoR': 3.0 * c1, 'UoRT': U, 'HoRT': U, 'SoR': 3.0 * s1,
                    'q': None, 'ZPE': zpe})


_GLX, _GLW = np.polynomial.legendre.leggauss(40)


def _gl(f, a, b, width=2.0):
    """composite 40-point Gauss-Legendre, panels no wider than `width` and geometrically
    refined towards a = 0 (integrands with x^2 ln x behaviour at the origin)."""
    edges = [a]
    if a == 0.0:
        # geometric refinement near the origin
        first = min(b, width)
        pts = [first * 0.25 ** k for k in range(12, -1, -1)]
        edges += pts
    while edges[-1] < b - 1e-300:
        edges.append(min(b, edges[-1] + width))
    tot = 0.0
    for lo, hi in zip(edges[:-1], edges[1:]):
        if hi <= lo:
            continue
        h, m = 0.5 * (hi - lo), 0.5 * (hi + lo)
        tot += h * float(np.dot(_GLW, f(m + h * _GLX)))
    return tot


def debye_D3(y):
    """Debye function D3(y) = 3/y^3 int_0^y x^3/(e^x - 1) dx"""
    return 3.0 / y ** 3 * _gl(lambda x: x ** 3 / np.expm1(x), 0.0, y)


def debye_cv_fn(y):
    """3/y^3 int_0^y x^4 e^x/(e^x-1)^2 dx"""
    return 3.0 / y ** 3 * _gl(lambda x: x ** 4 * np.exp(-x) / np.expm1(-x) ** 2, 0.0, y)


def debye(theta_D, T, u=0.0):
    """Debye crystal per atom (3N modes, density of states 9N w^2/w_D^3):
    Cv/R = 3 * [3/y^3 int x^4 e^x/(e^x-1)^2],  U/RT = u0/kT + 3 D3(y),
    u0 = u + 9/8 kB theta_D,  S/R = 4 D3(y) - 3 ln(1 - e^-y),  y = theta_D/T."""
    y = theta_D / T
    D = debye_D3(y)
    cv = 3.0 * debye_cv_fn(y)
    zpe = u + 9.0 / 8.0 * KB_EV * theta_D
    U = zpe / (KB_EV * T) + 3.0 * D
    S = 4.0 * D - 3.0 * math.log(-math.expm1(-y))
    return _finish({'CvoR': cv, 'CpoR': cv, 'UoRT': U, 'HoRT': U, 'SoR': S, 'q': None, 'ZPE': zpe})


# ---------------------------------------------------------------- rotation
def rigid_rotor(geometry, sigma, rot_temperatures, T):
    """High-temperature rigid rotor.  monatomic: no rotation; linear: q = T/(sigma theta);
    nonlinear: q = sqrt(pi)/sigma * sqrt(T^3/(theta_A theta_B theta_C))."""
    if geometry == 'monatomic':
        d = {'q': None, 'CvoR': 0.0, 'CpoR': 0.0, 'UoRT': 0.0, 'HoRT': 0.0, 'SoR': 0.0}
    elif geometry == 'linear':
        q = T / (sigma * rot_temperatures[0])
        d = {'q': q, 'CvoR': 1.0, 'CpoR': 1.0, 'UoRT': 1.0, 'HoRT': 1.0, 'SoR': math.log(q) + 1.0}
    elif geometry == 'nonlinear':
        a, b, c = rot_temperatures
        q = math.sqrt(math.pi) / sigma * math.sqrt(T / a) * math.sqrt(T / b) * math.sqrt(T / c)
        d = {'q': q, 'CvoR': 1.5, 'CpoR': 1.5, 'UoRT': 1.5, 'HoRT': 1.5, 'SoR': math.log(q) + 1.5}
    else:
        raise ValueError(geometry)
    return _finish(d)


# ---------------------------------------------------------------- electronic
def ground_state_elec(E_eV, spin, T):
    """Only the ground electronic level, degeneracy 2S+1: U = E, S = R ln(2S+1), Cv = 0."""
    U = E_eV / (KB_EV * T)
    return _finish({'q': None, 'CvoR': 0.0, 'CpoR': 0.0, 'UoRT': U, 'HoRT': U,
                    'SoR': math.log(2.0 * spin + 1.0)})


# ---------------------------------------------------------------- user-set constant mode
def constant_mode(m, T):
    """ConstantMode documents its attributes in eV (eV/K): dimensionless = value / kB[eV/K] (/T)."""
    g = lambda k, dflt=0.0: float(m.get(k, dflt))
    return {'q': g('q', 1.0), 'CvoR': g('Cv') / KB_EV, 'CpoR': g('Cp') / KB_EV,
            'UoRT': g('U') / KB_EV / T, 'HoRT': g('H') / KB_EV / T, 'SoR': g('S') / KB_EV,
            'FoRT': g('F') / KB_EV / T, 'GoRT': g('G') / KB_EV / T}


# documented point-group table of RigidRotor (class docstring / DOI 10.1007/s00214-007-0328-0)
POINT_GROUPS = {'C1': 1, 'Cs': 1, 'C2': 2, 'C2v': 2, 'C3v': 3, 'Cinfv': 1, 'D2h': 4, 'D3h': 6,
                'D5h': 10, 'Dinfh': 2, 'D3d': 6, 'Td': 12, 'Oh': 24}


def mode_reference(m, T, P, include_ZPE=True):
    """closed form for a mode spec (vf/gen/species.py format); None for a spec without one."""
    if m is None or m.get('type') in ('EmptyMode', 'EmptyNucl'):
        return empty()
    t = m['type']
    if t == 'FreeTrans':
        return free_trans(m['n_degrees'], m['molecular_weight'], T, P)
    if t == 'HarmonicVib':
        return harmonic(m['vib_wavenumbers'], T, m.get('imaginary_substitute'), include_ZPE)
    if t == 'QRRHOVib':
        return qrrho(m['vib_wavenumbers'], T, m.get('Bav', 1e-44), m.get('v0', 100.0), m.get('alpha', 4),
                     m.get('imaginary_substitute'))
    if t == 'EinsteinVib':
        return einstein(m['einstein_temperature'], T, m.get('interaction_energy', 0.0))
    if t == 'DebyeVib':
        return debye(m['debye_temperature'], T, m.get('interaction_energy', 0.0))
    if t == 'RigidRotor':
        s = m['symmetrynumber']
        if isinstance(s, str):
            s = POINT_GROUPS.get(s) or symmetry_number_of_label(s)
        return rigid_rotor(m['geometry'], s, m['rot_temperatures'], T)
    if t == 'GroundStateElec':
        return ground_state_elec(m.get('potentialenergy', 0.0), m.get('spin', 0.0), T)
    return None


# ---------------------------------------------------------------- point-group labels (general rule)
def symmetry_number_of_label(label):
    """Rotational symmetry number (order of the rotational subgroup) of a point group given by its
    Schoenflies label, by rule rather than by table:
    C1, Ci, Cs -> 1;  Cn, Cnv, Cnh -> n;  Dn, Dnd, Dnh -> 2n;  S2n -> n (odd Sn = Cnh -> n);
    T, Td, Th -> 12;  O, Oh -> 24;  I, Ih -> 60;  Cinfv -> 1;  Dinfh -> 2.
    Returns None for a label the rule does not understand."""
    import re
    if not isinstance(label, str):
        return None
    s = label.strip()
    if s in ('C1', 'Ci', 'Cs'):
        return 1
    if s in ('Cinfv', 'Coov', 'C*v'):
        return 1
    if s in ('Dinfh', 'Dooh', 'D*h'):
        return 2
    if s in ('T', 'Td', 'Th'):
        return 12
    if s in ('O', 'Oh'):
        return 24
    if s in ('I', 'Ih'):
        return 60
    m = re.fullmatch(r'C([1-9]\d*)(v|h)?', s)
    if m:
        return int(m.group(1))
    m = re.fullmatch(r'D([1-9]\d*)(d|h)?', s)
    if m:
        return 2 * int(m.group(1))
    m = re.fullmatch(r'S([1-9]\d*)', s)
    if m:
        n = int(m.group(1))
        return n // 2 if n % 2 == 0 else n
    return None

"""Reference evaluation of the NASA-7, NASA-9 and Shomate polynomial forms, written from
the published definitions (Gordon & McBride NASA RP-1311; Burcat; NIST WebBook Shomate),
scalar T, pure Python floats."""
import math


def nasa7_CpoR(a, T):
    return a[0] + a[1] * T + a[2] * T ** 2 + a[3] * T ** 3 + a[4] * T ** 4


def nasa7_HoRT(a, T):
    return (a[0] + a[1] * T / 2. + a[2] * T ** 2 / 3. + a[3] * T ** 3 / 4.
            + a[4] * T ** 4 / 5. + a[5] / T)


def nasa7_SoR(a, T):
    return (a[0] * math.log(T) + a[1] * T + a[2] * T ** 2 / 2. + a[3] * T ** 3 / 3.
            + a[4] * T ** 4 / 4. + a[6])


def nasa9_CpoR(a, T):
    return (a[0] / T ** 2 + a[1] / T + a[2] + a[3] * T + a[4] * T ** 2 + a[5] * T ** 3
            + a[6] * T ** 4)


def nasa9_HoRT(a, T):
    return (-a[0] / T ** 2 + a[1] * math.log(T) / T + a[2] + a[3] * T / 2. + a[4] * T ** 2 / 3.
            + a[5] * T ** 3 / 4. + a[6] * T ** 4 / 5. + a[7] / T)


def nasa9_SoR(a, T):
    return (-a[0] / (2. * T ** 2) - a[1] / T + a[2] * math.log(T) + a[3] * T + a[4] * T ** 2 / 2.
            + a[5] * T ** 3 / 3. + a[6] * T ** 4 / 4. + a[8])


def shomate_CpoR(a, T, R):
    """R = gas constant in the polynomial's units (e.g. 8.314 for J/mol/K)."""
    t = T / 1000.
    return (a[0] + a[1] * t + a[2] * t ** 2 + a[3] * t ** 3 + a[4] / t ** 2) / R


def shomate_HoRT(a, T, R):
    """H in kilo-units (kJ/mol for J/mol/K): A t + B t^2/2 + C t^3/3 + D t^4/4 - E/t + F."""
    t = T / 1000.
    H = a[0] * t + a[1] * t ** 2 / 2. + a[2] * t ** 3 / 3. + a[3] * t ** 4 / 4. - a[4] / t + a[5]
    return H * 1000. / (R * T)


def shomate_SoR(a, T, R):
    t = T / 1000.
    S = (a[0] * math.log(t) + a[1] * t + a[2] * t ** 2 / 2. + a[3] * t ** 3 / 3.
         - a[4] / (2. * t ** 2) + a[6])
    return S / R

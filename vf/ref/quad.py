"""Composite Gauss-Legendre quadrature with a built-in error estimate (16 vs 32 points
per panel; panels with T_hi/T_lo <= 1.25).  Used for the integral forms of
dH/dT = Cp and dS/dT = Cp/T."""
import numpy as np

_X16, _W16 = np.polynomial.legendre.leggauss(16)
_X32, _W32 = np.polynomial.legendre.leggauss(32)


def _panels(a, b, ratio=1.25):
    pts = [a]
    while pts[-1] * ratio < b:
        pts.append(pts[-1] * ratio)
    pts.append(b)
    return pts


def integrate(f, a, b, vectorized=False):
    """returns (integral, error_estimate).  f takes a float (or ndarray if vectorized)."""
    if a == b:
        return 0.0, 0.0
    sign = 1.0
    if b < a:
        a, b, sign = b, a, -1.0
    pts = _panels(a, b)
    tot16 = tot32 = 0.0
    for lo, hi in zip(pts[:-1], pts[1:]):
        h, m = 0.5 * (hi - lo), 0.5 * (hi + lo)
        x16, x32 = m + h * _X16, m + h * _X32
        if vectorized:
            f16, f32 = np.asarray(f(x16), float), np.asarray(f(x32), float)
        else:
            f16 = np.array([float(f(float(x))) for x in x16])
            f32 = np.array([float(f(float(x))) for x in x32])
        tot16 += h * float(np.dot(_W16, f16))
        tot32 += h * float(np.dot(_W32, f32))
    return sign * tot32, abs(tot32 - tot16)

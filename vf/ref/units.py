"""SI definitions of every unit pMuTT's conversion table names, written from the
definitions (BIPM SI brochure 2019, CODATA 2018, NIST SP 811) -- independent of
pmutt.constants.  value = how many SI base units one of this unit is."""
NA = 6.02214076e23
E_CHARGE = 1.602176634e-19
HARTREE = 4.3597447222071e-18
KB = 1.380649e-23
H = 6.62607015e-34
C_LIGHT = 299792458.0
R_SI = KB * NA
AMU = 1.66053906660e-27
M_E = 9.1093837015e-31
M_P = 1.67262192369e-27

INCH = 0.0254
FT = 0.3048
ATM = 101325.0

SI = {
    'energy': {'J': 1., 'kJ': 1e3, 'eV': E_CHARGE, 'cal': 4.184, 'kcal': 4184., 'L atm': 1e-3 * ATM,
               'Eh': HARTREE, 'Ha': HARTREE},
    'energy/amount': {'J/mol': 1., 'kJ/mol': 1e3, 'cal/mol': 4.184, 'kcal/mol': 4184.,
                      'eV/molecule': E_CHARGE * NA, 'Eh/molecule': HARTREE * NA, 'Ha/molecule': HARTREE * NA,
                      'eV/particle': E_CHARGE * NA, 'Eh/particle': HARTREE * NA, 'Ha/particle': HARTREE * NA},
    'time': {'ps': 1e-12, 'ns': 1e-9, 'ms': 1e-3, 's': 1., 'min': 60., 'hr': 3600., 'day': 86400.,
             'yr': 365.25 * 86400.},
    'amount': {'mol': 1., 'molecule': 1. / NA, 'molec': 1. / NA, 'particle': 1. / NA},
    'length': {'m': 1., 'cm': 1e-2, 'nm': 1e-9, 'km': 1e3, 'inch': INCH, 'ft': FT, 'mile': 1609.344,
               'A': 1e-10},
    'area': {'m2': 1., 'cm2': 1e-4, 'A2': 1e-20, 'km2': 1e6, 'inch2': INCH ** 2, 'ft2': FT ** 2},
    'volume': {'m3': 1., 'cm3': 1e-6, 'mL': 1e-6, 'L': 1e-3, 'inch3': INCH ** 3, 'ft3': FT ** 3},
    'mass': {'kg': 1., 'g': 1e-3, 'amu': AMU, 'lbs': 0.45359237},
    'pressure': {'Pa': 1., 'kPa': 1e3, 'MPa': 1e6, 'atm': ATM, 'bar': 1e5, 'mmHg': 133.322387415,
                 'torr': ATM / 760., 'Torr': ATM / 760., 'psi': 6894.757293168},
}
BASE = {'energy': 'J', 'energy/amount': 'J/mol', 'time': 's', 'amount': 'mol', 'length': 'm',
        'area': 'm2', 'volume': 'm3', 'mass': 'kg', 'pressure': 'Pa'}

# area / volume units and the length unit they are the square / cube of
SQUARES = {'m2': 'm', 'cm2': 'cm', 'A2': 'A', 'km2': 'km', 'inch2': 'inch', 'ft2': 'ft'}
CUBES = {'m3': 'm', 'cm3': 'cm', 'inch3': 'inch', 'ft3': 'ft'}


def to_kelvin(x, unit):
    if unit == 'K':
        return x
    if unit == 'C':
        return x + 273.15
    if unit == 'F':
        return (x + 459.67) / 1.8
    if unit == 'R':
        return x / 1.8
    raise KeyError(unit)


def from_kelvin(k, unit):
    if unit == 'K':
        return k
    if unit == 'C':
        return k - 273.15
    if unit == 'F':
        return k * 1.8 - 459.67
    if unit == 'R':
        return k * 1.8
    raise KeyError(unit)


def si_of(unit):
    for t, d in SI.items():
        if unit in d:
            return t, d[unit]
    raise KeyError(unit)


def energy_unit_si(name):
    """SI value (J) of an energy unit string that may be composite ('L kPa', 'cm3 atm',
    'inch3 psi')."""
    if name in SI['energy']:
        return SI['energy'][name]
    parts = name.split(' ')
    if len(parts) == 2 and parts[0] in SI['volume'] and parts[1] in SI['pressure']:
        return SI['volume'][parts[0]] * SI['pressure'][parts[1]]
    raise KeyError(name)


def R_in(units):
    """Gas constant in e.g. 'L atm/mol/K' or per-molecule 'eV/K' from SI definitions."""
    parts = units.split('/')
    if parts[-1] != 'K':
        raise KeyError(units)
    e = energy_unit_si(parts[0])
    if len(parts) == 3 and parts[1] == 'mol':
        return R_SI / e
    if len(parts) == 2:
        return KB / e
    raise KeyError(units)

"""Independent piecewise least-squares fit of Cp/R data in one of the three polynomial
families (NASA-7, NASA-9, Shomate) with prescribed break temperatures.

Written from the published forms of the heat-capacity polynomials, not from pMuTT:

    NASA-7   Cp/R = c0 + c1 x + c2 x^2 + c3 x^3 + c4 x^4
    NASA-9   Cp/R = c0 x^-2 + c1 x^-1 + c2 + c3 x + c4 x^2 + c5 x^3 + c6 x^4
    Shomate  Cp/R = c0 + c1 x + c2 x^2 + c3 x^3 + c4 x^-2

in the *scaled* variable x = T / T_scale (T_scale = largest data temperature), solved by
numpy.linalg.lstsq (SVD) with unit-norm columns.  It is used as a yardstick ("how well can
*any* polynomial of this family with these breaks follow the data"), never as the expected
value of pMuTT's coefficients.
"""
import numpy as np

POWERS = {'nasa7': (0, 1, 2, 3, 4),
          'nasa9': (-2, -1, 0, 1, 2, 3, 4),
          'shomate': (0, 1, 2, 3, -2)}


class Underdetermined(Exception):
    """a segment holds fewer data points than the family has Cp coefficients"""


def design(family, T, T_scale):
    x = np.asarray(T, dtype=float) / T_scale
    return np.column_stack([x ** p for p in POWERS[family]])


class PiecewiseFit:
    def __init__(self, family, edges, coefs, T_scale):
        self.family = family
        self.edges = list(edges)          # [T_low, b1, ..., T_high]
        self.coefs = coefs                # one vector per segment (scaled variable)
        self.T_scale = T_scale
        self.rms = None
        self.maxabs = None
        self.resid = None                 # fit - data, in the order of the data
        self.n_points = []

    def segment(self, T):
        """closed on the right: T <= edge belongs to the lower segment"""
        for i in range(1, len(self.edges) - 1):
            if T <= self.edges[i]:
                return i - 1
        return len(self.edges) - 2

    def cp(self, T):
        c = self.coefs[self.segment(T)]
        x = float(T) / self.T_scale
        return float(sum(ck * x ** p for ck, p in zip(c, POWERS[self.family])))

    def raw_coefficients(self, i):
        """coefficients of T**p (unscaled variable) of segment i"""
        return [ck / self.T_scale ** p for ck, p in zip(self.coefs[i], POWERS[self.family])]


def fit(family, T, Cp, breaks=()):
    """Least-squares fit of every segment.  Segment k receives the points with
    edge_k < T <= edge_{k+1}; the first one also receives T == edge_0."""
    T = np.asarray(T, dtype=float)
    Cp = np.asarray(Cp, dtype=float)
    lo, hi = float(T.min()), float(T.max())
    edges = [lo] + sorted(float(b) for b in breaks) + [hi]
    T_scale = hi
    npar = len(POWERS[family])
    out = PiecewiseFit(family, edges, [], T_scale)
    resid = np.zeros_like(Cp)
    for k in range(len(edges) - 1):
        if k == 0:
            mask = (T >= edges[0]) & (T <= edges[1])
        else:
            mask = (T > edges[k]) & (T <= edges[k + 1])
        n = int(mask.sum())
        out.n_points.append(n)
        if n < npar:
            raise Underdetermined('segment %d has %d points for %d coefficients' % (k, n, npar))
        A = design(family, T[mask], T_scale)
        norms = np.linalg.norm(A, axis=0)
        norms[norms == 0.0] = 1.0
        sol, _, _, _ = np.linalg.lstsq(A / norms, Cp[mask], rcond=None)
        c = sol / norms
        out.coefs.append(c)
        resid[mask] = A @ c - Cp[mask]
    out.resid = resid
    out.rms = float(np.sqrt(np.mean(resid ** 2)))
    out.maxabs = float(np.max(np.abs(resid)))
    return out

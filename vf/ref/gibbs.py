"""Reference chemical-equilibrium solver for an ideal-gas mixture (independent of pMuTT).

Problem (everything divided by RT):

    minimise   G(n) = sum_i n_i * (mu0_i + ln(n_i / N)),   N = sum_i n_i,
    subject to A^T n = b,  n >= 0,

with mu0_i = g_i + ln(P / P_ref), A the (species x elements) formula matrix and b the element
totals of the feed.  G is convex and positively homogeneous, the minimiser is unique.

Method: element potentials, Newton iteration on (ln n_i, ln N, pi) with the reduced equations
and step control of Gordon & McBride (NASA RP-1311, 1994, eqs. 2.24, 2.26, 3.1-3.3), written
from the report.  Differences that make it robust for hostile random networks:

* exact rational elimination of linearly dependent element columns (rank-deficient formula
  matrices) and an exact integer null-space basis (used by the caller for reaction affinities);
* species that cannot be present in any atom-conserving composition ("forced zero") are found
  by linear programming and removed; the iteration starts from the strictly interior point of
  the max-min LP, i.e. it is atom-conserving from the first step;
* the iteration works on ln n_i, so 1e-300 mole fractions are unproblematic; the standard Gibbs
  energies are first shifted by the best element-wise linear fit (a gauge change of the element
  potentials that leaves the minimiser unchanged) and, if the plain iteration does not converge,
  the problem is continued from the maximum-entropy composition (mu0 scaled by tau = 0 -> 1);
* the result carries its own certificate: Lagrangian duality gives, for *every* n >= 0,

      G(n) - pi.(A^T n - b)  >=  pi.b - N(n) * max(0, ln s),    s = sum_i exp(A_i.pi - mu0_i),

  so `gap = G(n_ref) - (pi.b - N*max(0, ln s))` bounds how far n_ref is from the true minimum.
  `converged` is True only if the atom balance residual and this gap are negligible.
"""
from fractions import Fraction

import numpy as np


# ----------------------------------------------------------------------------- exact algebra
def _rref(rows, ncols):
    """Reduced row echelon form over the rationals.  rows: list of lists of Fraction.
    Returns (rref rows, pivot column list)."""
    M = [list(r) for r in rows]
    piv = []
    r = 0
    for c in range(ncols):
        p = None
        for i in range(r, len(M)):
            if M[i][c] != 0:
                p = i
                break
        if p is None:
            continue
        M[r], M[p] = M[p], M[r]
        inv = 1 / M[r][c]
        M[r] = [v * inv for v in M[r]]
        for i in range(len(M)):
            if i != r and M[i][c] != 0:
                f = M[i][c]
                M[i] = [a - f * b_ for a, b_ in zip(M[i], M[r])]
        piv.append(c)
        r += 1
        if r == len(M):
            break
    return M[:r], piv


def independent_columns(A):
    """Indices of a maximal set of linearly independent columns of the integer matrix A."""
    A = np.asarray(A)
    ns, ne = A.shape
    rows = [[Fraction(int(A[i, k])) for k in range(ne)] for i in range(ns)]
    _, piv = _rref(rows, ne)
    return piv


def rank(A):
    return len(independent_columns(A))


def nullspace_reactions(A, order=None):
    """Integer basis of {nu : nu^T A = 0} (stoichiometric vectors of a complete set of
    independent reactions among the species = rows of A).  `order` lists species indices by
    decreasing preference for being a *pivot* (component) species: every basis reaction then
    forms exactly one non-pivot species from pivot species.  Returns list of integer arrays of
    length ns."""
    A = np.asarray(A)
    ns, ne = A.shape
    order = list(order) if order is not None else list(range(ns))
    # rows = elements, columns = species in preference order
    rows = [[Fraction(int(A[i, k])) for i in order] for k in range(ne)]
    R, piv = _rref(rows, ns)
    free = [c for c in range(ns) if c not in piv]
    out = []
    for f in free:
        v = [Fraction(0)] * ns
        v[f] = Fraction(1)
        for r_i, p in enumerate(piv):
            v[p] = -R[r_i][f]
        den = 1
        for x in v:
            den = den * x.denominator // _gcd(den, x.denominator)
        iv = [int(x * den) for x in v]
        g = 0
        for x in iv:
            g = _gcd(g, abs(x))
        g = g or 1
        nu = np.zeros(ns, dtype=int)
        for pos, x in enumerate(iv):
            nu[order[pos]] = x // g
        out.append(nu)
    return out


def _gcd(a, b):
    while b:
        a, b = b, a % b
    return a


# ----------------------------------------------------------------------------- Gibbs energy
def gibbs(n, mu0):
    """G/RT of the composition n (0 ln 0 = 0)."""
    n = np.asarray(n, dtype=float)
    mu0 = np.asarray(mu0, dtype=float)
    N = n.sum()
    pos = n > 0
    return float(np.sum(n[pos] * (mu0[pos] + np.log(n[pos] / N))))


# ----------------------------------------------------------------------------- feasibility
def _interior_point(A, b):
    """max t  s.t. A^T n = b, n_i >= t.  Returns (n, t) or (None, None)."""
    from scipy.optimize import linprog
    ns, ne = A.shape
    c = np.zeros(ns + 1)
    c[-1] = -1.0
    Aeq = np.hstack([A.T, np.zeros((ne, 1))])
    Aub = np.hstack([-np.eye(ns), np.ones((ns, 1))])
    res = linprog(c, A_ub=Aub, b_ub=np.zeros(ns), A_eq=Aeq, b_eq=b,
                  bounds=[(0, None)] * ns + [(None, None)], method='highs')
    if res.status != 0:
        return None, None
    return res.x[:ns], res.x[-1]


def _max_each(A, b):
    from scipy.optimize import linprog
    ns, ne = A.shape
    out = np.zeros(ns)
    for i in range(ns):
        c = np.zeros(ns)
        c[i] = -1.0
        res = linprog(c, A_eq=A.T, b_eq=b, bounds=[(0, None)] * ns, method='highs')
        if res.status != 0:
            return None
        out[i] = res.x[i]
    return out


def _max_total(A, b):
    from scipy.optimize import linprog
    ns, ne = A.shape
    res = linprog(-np.ones(ns), A_eq=A.T, b_eq=b, bounds=[(0, None)] * ns, method='highs')
    if res.status != 0:
        return None
    return float(res.x.sum())


def _newton(Aa, ba, mua, y, lnN, maxit, xtol, bsum):
    """Gordon-McBride iteration from (y = ln n, lnN).  Returns (y, lnN, pi, converged, its)."""
    na, nc = Aa.shape
    y = np.array(y, dtype=float)
    lnN = float(lnN)
    pi = np.zeros(nc)
    for it in range(1, maxit + 1):
        n = np.exp(y)
        N = float(np.exp(lnN))
        mu = mua + y - lnN
        An = Aa * n[:, None]
        col = An.sum(0)
        M = np.empty((nc + 1, nc + 1))
        M[:nc, :nc] = Aa.T @ An
        M[:nc, nc] = col
        M[nc, :nc] = col
        M[nc, nc] = n.sum() - N
        r = np.empty(nc + 1)
        r[:nc] = ba - col + An.T @ mu
        r[nc] = N - n.sum() + n @ mu
        if not (np.all(np.isfinite(M)) and np.all(np.isfinite(r))):
            return y, lnN, pi, False, it
        # symmetric scaling improves conditioning when amounts differ by many decades
        d = np.sqrt(np.maximum(np.abs(np.diag(M)), 1e-300))
        d[nc] = max(d[nc], np.sqrt(N))
        Ms = M / d[:, None] / d[None, :]
        try:
            sol = np.linalg.solve(Ms, r / d) / d
            if not np.all(np.isfinite(sol)):
                raise np.linalg.LinAlgError
        except np.linalg.LinAlgError:
            sol = np.linalg.lstsq(Ms, r / d, rcond=None)[0] / d
        if not np.all(np.isfinite(sol)):
            return y, lnN, pi, False, it
        pi = sol[:nc]
        dlnN = float(sol[nc])
        dy = Aa @ pi + dlnN - mu
        # step control (RP-1311 eqs. 3.1-3.3)
        lnx = y - lnN
        major = (lnx > -18.420681) | (dy > 0)
        m1 = max(5.0 * abs(dlnN), float(np.max(np.abs(dy[major]))) if major.any() else 0.0)
        lam = 1.0
        if m1 > 2.0:
            lam = 2.0 / m1
        minor_up = (lnx <= -18.420681) & (dy >= 0)
        if minor_up.any():
            den = dy[minor_up] - dlnN
            with np.errstate(divide='ignore', invalid='ignore'):
                l2 = np.abs((-lnx[minor_up] - 9.2103404) / den)
            l2 = l2[np.isfinite(l2)]
            if l2.size:
                lam = min(lam, float(l2.min()))
        # decreasing trace species may fall freely but not overflow the exponent range
        step = lam * dy
        step = np.where(major, step, np.maximum(step, -50.0))
        y = np.maximum(y + step, -2000.0)
        lnN = lnN + lam * dlnN
        if lam == 1.0:
            nn = np.exp(y)
            tot = nn.sum()
            if (np.max(np.abs(dy) * nn) / tot < xtol and abs(dlnN) < xtol * 10
                    and abs(np.exp(lnN) - tot) < 1e-12 * tot
                    and np.max(np.abs(nn @ Aa - ba)) < 1e-12 * bsum):
                return y, lnN, pi, True, it
    return y, lnN, pi, False, maxit


class Result:
    __slots__ = ('n', 'pi', 'pi_cols', 'active', 'forced_zero', 'G', 'lower_bound', 'gap',
                 'balance', 'iterations', 'converged', 'reason', 'N', 'ln_s', 'n_max')

    def as_dict(self):
        return {k: (getattr(self, k).tolist() if isinstance(getattr(self, k), np.ndarray)
                    else getattr(self, k)) for k in self.__slots__}


def solve(A, b, mu0, maxit=6000, xtol=1e-13):
    """Minimise G over {A^T n = b, n >= 0}.

    A   (ns, ne) integer formula matrix, b (ne,) element totals (consistent: b = A^T n_feed),
    mu0 (ns,)   g_i + ln(P/P_ref).
    Returns Result; `converged` means certified (see module docstring)."""
    A = np.asarray(A, dtype=float)
    b = np.asarray(b, dtype=float)
    mu0 = np.asarray(mu0, dtype=float)
    ns, ne = A.shape
    R = Result()
    R.n = np.zeros(ns)
    R.converged = False
    R.reason = ''
    R.iterations = 0
    R.G = R.lower_bound = R.gap = R.balance = float('nan')
    R.pi = None
    R.N = R.ln_s = R.n_max = float('nan')
    R.active = list(range(ns))
    R.forced_zero = []
    bsum = float(np.abs(b).sum())
    if bsum <= 0 or np.any(b < 0):
        R.reason = 'empty feed'
        return R
    cols = independent_columns(A.astype(int))
    R.pi_cols = cols
    # ---- which species can be present at all
    n0, t = _interior_point(A, b)
    if n0 is None:
        R.reason = 'LP infeasible'
        return R
    active = np.ones(ns, dtype=bool)
    if t <= 1e-11 * bsum:
        mx = _max_each(A, b)
        if mx is None:
            R.reason = 'LP failure'
            return R
        active = mx > 1e-10 * bsum
        if not active.any():
            R.reason = 'no species can be present'
            return R
        n0a, t = _interior_point(A[active], b)
        if n0a is None or t <= 1e-11 * bsum:
            R.reason = 'no interior point'
            return R
        n0 = np.zeros(ns)
        n0[active] = n0a
    R.active = [int(i) for i in np.where(active)[0]]
    R.forced_zero = [int(i) for i in np.where(~active)[0]]
    Aa = A[active][:, cols]
    ba = b[cols]
    mua = mu0[active]
    na = len(mua)
    nc = len(cols)
    n_max = _max_total(A[active], b)
    if n_max is None:
        R.reason = 'LP failure'
        return R
    R.n_max = n_max

    # ---- gauge: mu0_i -> mu0_i - A_i.pi0 leaves the minimiser unchanged (pi -> pi - pi0)
    pi0 = np.linalg.lstsq(Aa, mua, rcond=None)[0]
    mug = mua - Aa @ pi0
    y0 = np.log(n0[active])
    lnN0 = float(np.log(np.exp(y0).sum()))
    y, lnN, pi, ok_iter, its = _newton(Aa, ba, mug, y0, lnN0, 150, xtol, bsum)
    R.iterations = its
    if not ok_iter:
        # continuation in the "inverse temperature" tau: mu(tau) = tau * mu, tau: 0 -> 1
        y, lnN = y0, lnN0
        tau, dtau, ok_iter = 0.0, 0.25, False
        yc, lc, pc, okc, k = _newton(Aa, ba, 0.0 * mug, y, lnN, 400, xtol, bsum)
        R.iterations += k
        if okc:
            y, lnN = yc, lc
            while R.iterations < maxit:
                t2 = min(1.0, tau + dtau)
                yc, lc, pc, okc, k = _newton(Aa, ba, t2 * mug, y, lnN, 120, xtol, bsum)
                R.iterations += k
                if okc:
                    y, lnN, pi, tau = yc, lc, pc, t2
                    dtau = min(dtau * 2.0, 0.5)
                    if tau >= 1.0:
                        ok_iter = True
                        break
                else:
                    dtau *= 0.25
                    if dtau < 1e-6:
                        break
    pi = pi + pi0
    # ---- final state, certificate
    # trace species: set exactly to their stationary value n_i = N exp(A_i.pi - mu0_i)
    N = float(np.exp(lnN))
    lnx_stat = Aa @ pi - mua
    y_stat = lnx_stat + lnN
    trace = (y - lnN) < -30.0
    y = np.where(trace, y_stat, y)
    n = np.exp(y)
    full = np.zeros(ns)
    full[active] = n
    R.n = full
    R.N = float(n.sum())
    R.pi = pi
    R.G = gibbs(full, mu0)
    R.balance = float(np.max(np.abs(full @ A - b)) / bsum)
    m = float(lnx_stat.max())
    ln_s = m + float(np.log(np.sum(np.exp(lnx_stat - m))))
    R.ln_s = ln_s
    R.lower_bound = float(pi @ ba) - n_max * max(0.0, ln_s)
    # the Lagrangian value of n_ref (equals G for an exactly atom-conserving n_ref)
    lag = R.G - float(pi @ (n @ Aa - ba))
    R.gap = lag - R.lower_bound
    scale = 1.0 + abs(R.G)
    if not ok_iter:
        R.reason = 'iteration limit'
    elif R.balance > 1e-11:
        R.reason = 'atom balance residual'
    elif not (abs(R.gap) <= 1e-9 * scale):
        R.reason = 'duality gap'
    else:
        R.converged = True
    return R


def lagrangian_excess(n, A, b, mu0, ref):
    """G(n) - pi.(A^T n - b) - G(n_ref) for the active species of `ref`, plus the plain
    Gibbs contribution of species that `ref` found to be forced to zero.  Non-negative (up
    to ref.gap) for every n >= 0, zero only at the minimiser; for an atom-conserving n it is
    exactly G(n) - G(n_ref)."""
    n = np.asarray(n, dtype=float)
    A = np.asarray(A, dtype=float)
    mu0 = np.asarray(mu0, dtype=float)
    G = gibbs(n, mu0)
    act = np.zeros(len(n), dtype=bool)
    act[ref.active] = True
    resid = (n * act) @ A[:, ref.pi_cols] - np.asarray(b, dtype=float)[ref.pi_cols]
    return G - float(ref.pi @ resid) - ref.G

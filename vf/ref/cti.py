"""Independent evaluator for Cantera / OpenMKM CTI text.

A CTI file is a Python program made of *directives* (calls of `units`, `ideal_gas`,
`species`, `NASA`, `surface_reaction`, ...).  `evaluate(text)` executes it against
recording stubs whose signatures are the documented ones (Cantera 2.4 "Input File
Reference" plus OpenMKM's `interacting_interface`, `lateral_interaction`, `bep`), so an
unknown directive, an unknown keyword or a malformed argument makes the file invalid,
and returns what the file *says* as plain data (`Doc`).  Written from the format
documentation -- nothing is imported from pMuTT.

Also here: an independent reaction-equation parser, the expansion of OpenMKM id ranges
("r_0003 to r_0007") and a chunker that lets the directives of a file that is *not* a
valid program be evaluated one by one (to name the culprit and keep checking the rest).
"""
import re


class CTIInvalid(Exception):
    """The text is not a valid sequence of CTI directives."""

    def __init__(self, msg, directive=None, kind='invalid'):
        super().__init__(msg)
        self.directive = directive
        self.kind = kind


VALID_UNITS = {
    'length': {'cm', 'm', 'mm'},
    'quantity': {'kmol', 'mol', 'molec'},
    'time': {'s', 'min', 'hr', 'ms'},
    'energy': {'J', 'kJ', 'cal', 'kcal'},
    'act_energy': {'kJ/mol', 'J/mol', 'J/kmol', 'kcal/mol', 'cal/mol', 'eV', 'K'},
    'pressure': {'Pa', 'atm', 'bar'},
    'mass': {'kg', 'g'},
}


class Thermo:
    def __init__(self, kind, Trange, coeffs, p0):
        self.kind = kind
        self.Trange = Trange
        self.coeffs = coeffs
        self.p0 = p0


class Rate:
    def __init__(self, kind, A, b, E, coverage=None, motz_wise=None):
        self.kind = kind            # 'Arrhenius' | 'stick'
        self.A, self.b, self.E = A, b, E
        self.coverage = coverage
        self.motz_wise = motz_wise


class State:
    def __init__(self, **kw):
        self.fields = kw


class Doc:
    """What the file says."""

    def __init__(self):
        self.order = []             # directive names in file order (top level only)
        self.units = []             # list of dicts (one per units() call)
        self.phases = []            # dicts: kind,name,elements,species,... as written
        self.species = []
        self.reactions = []
        self.interactions = []
        self.beps = []
        self.motz_wise = []         # sequence of True/False calls
        self.problems = []          # soft format problems (wrong coefficient count ...)


def _num(x, what, directive):
    if isinstance(x, bool) or not isinstance(x, (int, float)):
        raise CTIInvalid('%s: %s must be a number, got %r' % (directive, what, x), directive)
    return x


def _numlist(xs, what, directive, n=None):
    if not isinstance(xs, (list, tuple)):
        raise CTIInvalid('%s: %s must be a sequence of numbers' % (directive, what), directive)
    out = [_num(x, what, directive) for x in xs]
    if n is not None and len(out) != n:
        raise CTIInvalid('%s: %s must have %d entries, has %d' % (directive, what, n, len(out)),
                         directive, kind='length')
    return out


def _string(x, what, directive):
    if not isinstance(x, str):
        raise CTIInvalid('%s: %s must be a string, got %r' % (directive, what, type(x).__name__), directive)
    return x


def _names(x, what, directive):
    """A string of whitespace separated names, or a sequence of such strings."""
    if isinstance(x, str):
        return x.split()
    if isinstance(x, (list, tuple)):
        out = []
        for s in x:
            out.extend(_string(s, what, directive).split())
        return out
    raise CTIInvalid('%s: %s must be a string or a sequence of strings' % (directive, what), directive)


def _id_list(x, what, directive):
    """reactions= / interactions= / cleavage_reactions=: 'all', 'none', one string or a list
    of strings, each an id or an id range 'a to b'."""
    if isinstance(x, str):
        return [x]
    if isinstance(x, (list, tuple)):
        return [_string(s, what, directive) for s in x]
    raise CTIInvalid('%s: %s must be a string or a list of strings' % (directive, what), directive)


def parse_atoms(atoms, directive='species'):
    if isinstance(atoms, dict):
        return dict(atoms)
    _string(atoms, 'atoms', directive)
    out = {}
    for tok in atoms.replace(',', ' ').split():
        if tok.count(':') != 1:
            raise CTIInvalid('%s: atoms token %r is not element:count' % (directive, tok), directive)
        el, n = tok.split(':')
        try:
            v = float(n)
        except ValueError:
            raise CTIInvalid('%s: atoms count %r is not a number' % (directive, n), directive)
        if el in out:
            raise CTIInvalid('%s: element %s given twice' % (directive, el), directive)
        out[el] = v
    return out


def parse_side(side):
    """'A + 2 B(S) + 0.50 C' -> {'A':1.0,'B(S)':2.0,'C':0.5}; independent of pMuTT."""
    out = {}
    side = side.strip()
    if not side:
        return out
    for term in side.split(' + '):
        toks = term.split()
        if len(toks) == 1:
            n, name = 1.0, toks[0]
        elif len(toks) == 2:
            try:
                n = float(toks[0])
            except ValueError:
                raise CTIInvalid('reaction term %r: coefficient is not a number' % term, 'reaction')
            name = toks[1]
        else:
            raise CTIInvalid('reaction term %r is not "[n] name"' % term, 'reaction')
        if n <= 0:
            raise CTIInvalid('reaction term %r: non-positive coefficient' % term, 'reaction')
        out[name] = out.get(name, 0.0) + n
    return out


def parse_equation(eq):
    """-> (reactants dict, products dict, reversible flag)."""
    if not isinstance(eq, str):
        raise CTIInvalid('reaction equation must be a string', 'reaction')
    for arrow, rev in ((' <=> ', True), (' => ', False), (' = ', True)):
        if arrow in eq:
            parts = eq.split(arrow)
            if len(parts) != 2:
                raise CTIInvalid('equation %r has more than one arrow' % eq, 'reaction')
            return parse_side(parts[0]), parse_side(parts[1]), rev
    raise CTIInvalid('equation %r has no arrow' % eq, 'reaction')


_RANGE = re.compile(r'^(\S+)\s+(?:to|-)\s+(\S+)$')


def expand_ids(entries, known=None):
    """['r_0000 to r_0002', 'u_0007'] -> ['r_0000','r_0001','r_0002','u_0007'].
    A range needs a common header and integer footers of equal width."""
    out = []
    for e in entries:
        e = e.strip()
        m = _RANGE.match(e)
        if not m:
            if ' ' in e:
                raise CTIInvalid('id entry %r is neither an id nor a range' % e, 'range')
            out.append(e)
            continue
        lo, hi = m.group(1), m.group(2)
        ml = re.match(r'^(.*?)(\d+)$', lo)
        mh = re.match(r'^(.*?)(\d+)$', hi)
        if not ml or not mh or ml.group(1) != mh.group(1) or len(ml.group(2)) != len(mh.group(2)):
            raise CTIInvalid('range %r: ends do not share a header / width' % e, 'range')
        a, b = int(ml.group(2)), int(mh.group(2))
        if b < a:
            raise CTIInvalid('range %r is descending' % e, 'range')
        w = len(ml.group(2))
        for k in range(a, b + 1):
            i = '%s%0*d' % (ml.group(1), w, k)
            if known is None or i in known:
                out.append(i)
    return out


def make_namespace(doc):
    """Recording stubs with the documented signatures."""

    def top(name):
        doc.order.append(name)

    def units(length='', quantity='', mass='', time='', act_energy='', energy='', pressure=''):
        top('units')
        d = {'length': length, 'quantity': quantity, 'mass': mass, 'time': time,
             'act_energy': act_energy, 'energy': energy, 'pressure': pressure}
        for k, v in d.items():
            _string(v, k, 'units')
            if v and v not in VALID_UNITS[k]:
                doc.problems.append(('units', k, v))
        doc.units.append(d)

    def NASA(Trange=(0.0, 0.0), coeffs=(), p0=-1.0):
        t = _numlist(Trange, 'Trange', 'NASA', 2)
        c = _numlist(coeffs, 'coeffs', 'NASA')
        return Thermo('NASA', t, c, p0)

    def NASA9(Trange=(0.0, 0.0), coeffs=(), p0=-1.0):
        t = _numlist(Trange, 'Trange', 'NASA9', 2)
        c = _numlist(coeffs, 'coeffs', 'NASA9')
        return Thermo('NASA9', t, c, p0)

    def Shomate(Trange=(0.0, 0.0), coeffs=(), p0=-1.0):
        t = _numlist(Trange, 'Trange', 'Shomate', 2)
        c = _numlist(coeffs, 'coeffs', 'Shomate')
        return Thermo('Shomate', t, c, p0)

    def const_cp(t0=298.15, cp0=0.0, h0=0.0, s0=0.0, tmax=5000.0, tmin=100.0):
        return Thermo('const_cp', [tmin, tmax], [t0, h0, s0, cp0], -1.0)

    def species(name='missing name!', atoms='', note='', thermo=None, transport=None,
                charge=-999, size=None):
        top('species')
        _string(name, 'name', 'species')
        if not name or len(name.split()) != 1:
            raise CTIInvalid('species: name %r is empty or contains white space' % name, 'species')
        if isinstance(thermo, Thermo):
            th = [thermo]
        elif isinstance(thermo, (list, tuple)) and thermo and all(isinstance(t, Thermo) for t in thermo):
            th = list(thermo)
        else:
            raise CTIInvalid('species %s: thermo must be a thermo entry or a group of them' % name,
                             'species')
        doc.species.append({'name': name, 'atoms': parse_atoms(atoms), 'note': note, 'thermo': th,
                            'size': 1.0 if size is None else _num(size, 'size', 'species'),
                            'size_given': size is not None})

    def Arrhenius(A=0.0, b=0.0, E=0.0, coverage=()):
        return Rate('Arrhenius', A, b, E, coverage)

    def stick(A=0.0, b=0.0, E=0.0, coverage=(), motz_wise=None):
        return Rate('stick', A, b, E, coverage, motz_wise)

    def _rate(kf, directive):
        if isinstance(kf, Rate):
            r = kf
        elif isinstance(kf, (list, tuple)) and len(kf) == 3:
            r = Rate('Arrhenius', kf[0], kf[1], kf[2])
        else:
            raise CTIInvalid('%s: kf must be [A, b, E], Arrhenius(...) or stick(...)' % directive, directive)
        for nm, v in (('A', r.A), ('b', r.b), ('E', r.E)):
            if isinstance(v, (list, tuple)) and len(v) == 2 and isinstance(v[1], str):
                _num(v[0], nm, directive)
            else:
                _num(v, nm, directive)
        return r

    def _reaction(kind):
        def f(equation='', kf=None, id='', order='', beta=0.0, options=()):
            top(kind)
            r, p, rev = parse_equation(equation)
            rate = _rate(kf, kind)
            _string(id, 'id', kind)
            doc.reactions.append({'kind': kind, 'equation': equation, 'reactants': r, 'products': p,
                                  'reversible': rev, 'rate': rate, 'id': id, 'order': order,
                                  'options': options})
        f.__name__ = kind
        return f

    def lateral_interaction(species='', strengths=None, coverage_thresholds=None, id=''):
        top('lateral_interaction')
        pair = _names(species, 'species', 'lateral_interaction')
        if len(pair) != 2:
            raise CTIInvalid('lateral_interaction: species must name a pair, got %r' % (species,),
                             'lateral_interaction')
        s = _numlist(strengths, 'strengths', 'lateral_interaction')
        c = _numlist(coverage_thresholds, 'coverage_thresholds', 'lateral_interaction') \
            if coverage_thresholds is not None else None
        doc.interactions.append({'species': pair, 'strengths': s, 'coverage_thresholds': c,
                                 'id': _string(id, 'id', 'lateral_interaction')})

    def bep(slope=None, intercept=None, direction=None, cleavage_reactions=(), synthesis_reactions=(),
            id=''):
        top('bep')
        _num(slope, 'slope', 'bep')
        _num(intercept, 'intercept', 'bep')
        if direction not in ('cleavage', 'synthesis'):
            raise CTIInvalid('bep: direction must be cleavage or synthesis, got %r' % (direction,), 'bep')
        doc.beps.append({'id': _string(id, 'id', 'bep'), 'slope': slope, 'intercept': intercept,
                         'direction': direction,
                         'cleavage_reactions': _id_list(cleavage_reactions, 'cleavage_reactions', 'bep'),
                         'synthesis_reactions': _id_list(synthesis_reactions, 'synthesis_reactions', 'bep')})

    def state(temperature=None, pressure=None, mole_fractions=None, mass_fractions=None, density=None,
              coverages=None, solute_molalities=None):
        return State(temperature=temperature, pressure=pressure, mole_fractions=mole_fractions,
                     mass_fractions=mass_fractions, density=density, coverages=coverages)

    def _phase(kind, d):
        top(kind)
        name = _string(d.get('name', ''), 'name', kind)
        if not name or len(name.split()) != 1:
            raise CTIInvalid('%s: name %r is empty or contains white space' % (kind, name), kind)
        out = {'kind': kind, 'name': name,
               'elements': _names(d.get('elements', ''), 'elements', kind),
               'species': _names(d.get('species', ''), 'species', kind)}
        for k in ('reactions', 'interactions'):
            if d.get(k) is not None:
                out[k] = _id_list(d[k], k, kind)
        if d.get('beps') is not None:
            out['beps'] = _names(d['beps'], 'beps', kind)
        if d.get('phases') is not None:
            out['phases'] = _names(d['phases'], 'phases', kind)
        for k in ('site_density', 'density'):
            if k in d and d[k] is not None:
                v = d[k]
                if isinstance(v, (list, tuple)) and len(v) == 2 and isinstance(v[1], str):
                    out[k] = _num(v[0], k, kind)
                    out[k + '_units'] = v[1]
                else:
                    out[k] = _num(v, k, kind)
        for k in ('note', 'kinetics', 'transport'):
            if d.get(k) is not None:
                out[k] = d[k]
        if d.get('initial_state') is not None:
            if not isinstance(d['initial_state'], State):
                raise CTIInvalid('%s: initial_state must be a state(...) entry' % kind, kind)
            out['initial_state'] = d['initial_state'].fields
        if d.get('options') is not None:
            out['options'] = d['options']
        doc.phases.append(out)

    def ideal_gas(name='', elements='', species='', note=None, reactions=None, kinetics=None,
                  transport=None, initial_state=None, options=None):
        _phase('ideal_gas', locals())

    def stoichiometric_solid(name='', elements='', species='', note=None, density=None, transport=None,
                             initial_state=None, options=None):
        if density is None:
            raise CTIInvalid('stoichiometric_solid %s: density must be specified' % name,
                             'stoichiometric_solid')
        _phase('stoichiometric_solid', locals())

    def ideal_interface(name='', elements='', species='', note=None, reactions=None, site_density=None,
                        phases=None, kinetics=None, transport=None, initial_state=None, options=None):
        _phase('ideal_interface', locals())

    def interacting_interface(name='', elements='', species='', note=None, reactions=None,
                              interactions=None, beps=None, site_density=None, phases=None,
                              kinetics=None, transport=None, initial_state=None, options=None):
        _phase('interacting_interface', locals())

    def enable_motz_wise():
        top('enable_motz_wise')
        doc.motz_wise.append(True)

    def disable_motz_wise():
        top('disable_motz_wise')
        doc.motz_wise.append(False)

    def validate(species='yes', reactions='yes'):
        top('validate')

    ns = {'units': units, 'NASA': NASA, 'NASA9': NASA9, 'Shomate': Shomate, 'const_cp': const_cp,
          'species': species, 'Arrhenius': Arrhenius, 'stick': stick,
          'reaction': _reaction('reaction'), 'surface_reaction': _reaction('surface_reaction'),
          'edge_reaction': _reaction('edge_reaction'),
          'lateral_interaction': lateral_interaction, 'bep': bep, 'BEP': bep, 'state': state,
          'ideal_gas': ideal_gas, 'stoichiometric_solid': stoichiometric_solid,
          'stoichiometric_liquid': stoichiometric_solid,
          'ideal_interface': ideal_interface, 'interacting_interface': interacting_interface,
          'enable_motz_wise': enable_motz_wise, 'disable_motz_wise': disable_motz_wise,
          'validate': validate, 'OneAtm': 1.01325e5, 'OneBar': 1.0e5,
          '__builtins__': {}}
    return ns


def evaluate(text):
    """Execute the whole text as one CTI program.  Raises CTIInvalid."""
    doc = Doc()
    ns = make_namespace(doc)
    try:
        code = compile(text, '<cti>', 'exec')
    except SyntaxError as e:
        raise CTIInvalid('SyntaxError line %s: %s' % (e.lineno, e.msg), kind='SyntaxError')
    try:
        exec(code, ns)
    except CTIInvalid:
        raise
    except Exception as e:                       # NameError (unknown directive), TypeError (unknown keyword)
        raise CTIInvalid('%s: %s' % (type(e).__name__, e), kind=type(e).__name__)
    return doc


_DIRECTIVE_START = re.compile(r'^[A-Za-z_][A-Za-z_0-9]*\(')


def chunks(text):
    """Split the text at lines that start a directive in column 0."""
    out, cur = [], []
    for line in text.split('\n'):
        if _DIRECTIVE_START.match(line) and cur:
            out.append('\n'.join(cur))
            cur = []
        if line.startswith('#') and not cur:
            continue
        cur.append(line)
    if cur:
        out.append('\n'.join(cur))
    return [c for c in out if c.strip() and not all(l.startswith('#') or not l.strip() for l in c.split('\n'))]


def evaluate_chunks(text):
    """Directive-by-directive evaluation of a text that is not a valid program as a whole.
    -> (doc with everything that could be evaluated, [(chunk head, CTIInvalid)...])"""
    doc = Doc()
    ns = make_namespace(doc)
    bad = []
    for ch in chunks(text):
        head = ch.strip().split('\n')[0][:80]
        try:
            code = compile(ch, '<cti-chunk>', 'exec')
            exec(code, ns)
        except SyntaxError as e:
            bad.append((head, CTIInvalid('SyntaxError: %s' % e.msg, kind='SyntaxError')))
        except CTIInvalid as e:
            bad.append((head, e))
        except Exception as e:
            bad.append((head, CTIInvalid('%s: %s' % (type(e).__name__, e), kind=type(e).__name__)))
    return doc, bad


# --------------------------------------------------------------------------- units
NA = 6.02214076e23
KB = 1.380649e-23
H_PLANCK = 6.62607015e-34
R_SI = KB * NA

LENGTH_M = {'m': 1.0, 'cm': 1e-2, 'mm': 1e-3}
AMOUNT_MOL = {'mol': 1.0, 'kmol': 1e3, 'molec': 1.0 / NA, 'molecule': 1.0 / NA}
TIME_S = {'s': 1.0, 'min': 60.0, 'hr': 3600.0, 'ms': 1e-3}
MASS_KG = {'kg': 1.0, 'g': 1e-3}
ENERGY_J = {'J': 1.0, 'kJ': 1e3, 'cal': 4.184, 'kcal': 4184.0}
ACT_J_PER_MOL = {'J/mol': 1.0, 'kJ/mol': 1e3, 'cal/mol': 4.184, 'kcal/mol': 4184.0, 'J/kmol': 1e-3}
PRESSURE_PA = {'Pa': 1.0, 'bar': 1e5, 'atm': 101325.0}


def site_density(mol_per_cm2, quantity, length):
    """mol/cm2 -> quantity/length^2"""
    return mol_per_cm2 / AMOUNT_MOL[quantity] * (LENGTH_M[length] / 1e-2) ** 2


def mass_density(g_per_cm3, mass, length):
    """g/cm3 -> mass/length^3"""
    return g_per_cm3 * 1e-3 / MASS_KG[mass] * (LENGTH_M[length] / 1e-2) ** 3


def act_energy(kcal_per_mol, unit):
    return kcal_per_mol * 4184.0 / ACT_J_PER_MOL[unit]


def RT(T, unit):
    """R*T in an activation-energy unit."""
    return R_SI * T / ACT_J_PER_MOL[unit]


def interaction_strength(kcal_per_mol, energy, quantity):
    """kcal/mol -> energy/quantity"""
    return kcal_per_mol * 4184.0 / ENERGY_J[energy] * AMOUNT_MOL[quantity]

"""Independent fixed-column reader (and a small formatter) for Chemkin thermodynamic data.

Written from the format definition in the Chemkin-II manual (Kee, Rupley, Miller,
SAND89-8009, "Thermodynamic data", table "Summary of the rules for thermo data"), not from
pMuTT's reader:

    line 1          THERMO  (or THERMO ALL)
    line 2 (ALL)    three temperatures, 3F10.0            cols  1-30
    record 1        species name, starts in column 1      cols  1-18 (first blank ends it)
                    date / free text                      up to col 24
                    atomic symbols and formula 4(2A1,I3)  cols 25-44
                    phase A1                              col  45
                    low temperature  E10.0                cols 46-55
                    high temperature E10.0                cols 56-65
                    common temperature E8.0               cols 66-73
                    (fifth atomic symbol, 2A1,I3          cols 74-78, blank here)
                    the integer 1                         col  80
    record 2        a1..a5 of the upper range 5(E15.8)    cols  1-75, integer 2 in col 80
    record 3        a6,a7 upper; a1..a3 lower 5(E15.8)    cols  1-75, integer 3 in col 80
    record 4        a4..a7 of the lower range 4(E15.8)    cols  1-60, integer 4 in col 80
    END
    a line whose first character is '!' is a comment; blank lines are ignored.

`parse(text)` never raises on malformed input: every deviation from the layout is returned
as a *problem* `(rule, info)` so that a monitor can report which rule was broken.
Rules: header_keyword, header_temps, line_width, record_number, record_count, name_col1,
composition_symbol, composition_count, phase_col45, T_fields, pad_blank, coef_field,
end_keyword, trailing.
"""

RECORD_WIDTH = 80
COEF_WIDTH = 15


class Entry:
    __slots__ = ('index', 'line_no', 'name', 'date', 'groups', 'phase', 'T_low', 'T_high',
                 'T_mid', 'a_high', 'a_low', 'raw', 'problems')

    def __init__(self, index, line_no):
        self.index = index
        self.line_no = line_no
        self.name = None
        self.date = None
        self.groups = []          # (symbol, count, group_index) of the non-empty groups
        self.phase = None
        self.T_low = self.T_high = self.T_mid = None
        self.a_high = [None] * 7
        self.a_low = [None] * 7
        self.raw = []
        self.problems = []        # (rule, info)

    def bad(self, rule, **info):
        self.problems.append((rule, info))

    @property
    def elements(self):
        out = {}
        for sym, cnt, _ in self.groups:
            out[sym] = out.get(sym, 0) + cnt
        return out


class Parsed:
    def __init__(self):
        self.entries = []
        self.problems = []        # file level (rule, info)
        self.n_comment = 0
        self.n_blank = 0
        self.n_record_lines = 0
        self.header_temps = None
        self.end_seen = False

    def bad(self, rule, **info):
        self.problems.append((rule, info))

    def all_problems(self):
        out = [(r, dict(i, entry=None)) for r, i in self.problems]
        for e in self.entries:
            out.extend((r, dict(i, entry=e.index)) for r, i in e.problems)
        return out


def _num(field):
    """Fortran-style numeric field: blanks around the number are allowed, a blank inside
    is not; 'D' exponents are accepted."""
    s = field.strip()
    if not s or ' ' in s:
        return None
    try:
        return float(s.replace('D', 'E').replace('d', 'e'))
    except ValueError:
        return None


def _parse_record1(e, line):
    # --- name: starts in column 1, ended by the first blank, inside the name/date area
    head = line[:24]
    if head[0] == ' ':
        e.bad('name_col1', why='column 1 blank')
        toks = head.split()
        e.name = toks[0] if toks else ''
    else:
        cut = head.find(' ')
        if cut < 0:
            e.bad('name_col1', why='no blank between name and composition')
            cut = 24
        e.name = head[:cut]
        e.date = head[cut:].strip()
    # --- composition 4(2A1,I3)
    for k in range(4):
        g = line[24 + 5 * k: 29 + 5 * k]
        if g.strip() == '':
            continue
        sym, cnt = g[:2], g[2:]
        sym_ok = sym[0].isalpha() and (sym[1] == ' ' or sym[1].isalpha())
        if not sym_ok:
            e.bad('composition_symbol', group=k, text=g)
        c = cnt.strip()
        body = c[1:] if c[:1] in '+-' else c
        cnt_ok = body.isdigit() and cnt[-1] != ' '
        if not cnt_ok:
            e.bad('composition_count', group=k, text=g)
        if sym_ok and cnt_ok:
            e.groups.append((sym.strip(), int(c), k))
    # --- phase
    e.phase = line[44]
    if e.phase == ' ':
        e.bad('phase_col45', text=line[40:50])
    # --- temperatures
    for attr, a, b in (('T_low', 45, 55), ('T_high', 55, 65), ('T_mid', 65, 73)):
        v = _num(line[a:b])
        if v is None:
            e.bad('T_fields', field=attr, text=line[a:b])
        setattr(e, attr, v)
    if line[73:79].strip() != '':
        e.bad('pad_blank', record=1, text=line[73:79])


def _parse_coefs(e, line, rec, n):
    vals = []
    for k in range(n):
        f = line[COEF_WIDTH * k: COEF_WIDTH * (k + 1)]
        v = _num(f)
        if v is None or f[-1] == ' ':
            e.bad('coef_field', record=rec, field=k, text=f)
            v = None
        vals.append(v)
    if line[COEF_WIDTH * n:79].strip() != '':
        e.bad('pad_blank', record=rec, text=line[COEF_WIDTH * n:79])
    return vals


def parse(text):
    """text: whole file contents.  Returns Parsed."""
    P = Parsed()
    lines = text.split('\n')
    if lines and lines[-1] == '':
        lines.pop()
    lines = [ln[:-1] if ln.endswith('\r') else ln for ln in lines]
    i = 0
    # header keyword (comments / blanks may precede it)
    while i < len(lines) and (lines[i].strip() == '' or lines[i].startswith('!')):
        i += 1
    if i >= len(lines) or lines[i].split()[:1] != ['THERMO']:
        P.bad('header_keyword', text=lines[i][:40] if i < len(lines) else None)
    else:
        want_temps = lines[i].split()[1:2] == ['ALL']
        i += 1
        if want_temps:
            if i < len(lines):
                ln = lines[i]
                t = [_num(ln[0:10]), _num(ln[10:20]), _num(ln[20:30])]
                if None in t or ln[30:].strip() != '':
                    P.bad('header_temps', text=ln[:40])
                else:
                    P.header_temps = t
                i += 1
            else:
                P.bad('header_temps', text=None)
    # body
    group = []
    for j in range(i, len(lines)):
        ln = lines[j]
        if P.end_seen:
            if ln.strip() != '' and not ln.startswith('!'):
                P.bad('trailing', line_no=j + 1, text=ln[:40])
            continue
        if ln.strip() == '':
            P.n_blank += 1
            continue
        if ln.startswith('!'):
            P.n_comment += 1
            continue
        if not group and ln.strip() == 'END':
            P.end_seen = True
            continue
        P.n_record_lines += 1
        group.append((j + 1, ln))
        if len(group) == 4:
            P.entries.append(_parse_entry(len(P.entries), group))
            group = []
    if group:
        P.bad('record_count', leftover=len(group), first=group[0][1][:40])
    if not P.end_seen:
        P.bad('end_keyword')
    return P


def _parse_entry(index, group):
    e = Entry(index, group[0][0])
    for rec, (line_no, ln) in enumerate(group, start=1):
        e.raw.append(ln)
        ok = True
        if len(ln) != RECORD_WIDTH:
            e.bad('line_width', record=rec, width=len(ln))
            ok = False
        if len(ln) < RECORD_WIDTH or ln[RECORD_WIDTH - 1] != str(rec):
            e.bad('record_number', record=rec,
                  found=ln[RECORD_WIDTH - 1] if len(ln) >= RECORD_WIDTH else None)
        if not ok:
            continue               # columns are unreliable on a line of the wrong width
        if rec == 1:
            _parse_record1(e, ln)
        elif rec == 2:
            e.a_high[0:5] = _parse_coefs(e, ln, 2, 5)
        elif rec == 3:
            v = _parse_coefs(e, ln, 3, 5)
            e.a_high[5:7] = v[0:2]
            e.a_low[0:3] = v[2:5]
        else:
            e.a_low[3:7] = _parse_coefs(e, ln, 4, 4)
    return e


# ------------------------------------------------------------------ formatter
def format_entry(name, elements, phase, T_low, T_high, T_mid, a_low, a_high, date='',
                 style='right'):
    """One species in the layout above.  elements: list of (symbol, count), at most 4.
    style 'right': temperatures right-justified in their fields with two decimals (the
    usual look of published tables); 'left': left-justified with one decimal."""
    if len(name) > 16 or len(elements) > 4:
        raise ValueError('does not fit the fixed columns')
    head = name.ljust(18)[:18] if len(date) <= 6 else name.ljust(16)[:16]
    head = (head + date).ljust(24)[:24]
    comp = ''.join('%-2s%3d' % (s, c) for s, c in elements).ljust(20)
    if style == 'right':
        T = '%10.2f%10.2f%8.2f' % (T_low, T_high, T_mid)
    else:
        T = ('%.1f' % T_low).ljust(10) + ('%.1f' % T_high).ljust(10) + ('%.1f' % T_mid).ljust(8)
    l1 = head + comp + phase + T + ' ' * 6 + '1'
    c = list(a_high) + list(a_low)
    l2 = ''.join('%15.8E' % v for v in c[0:5]) + '    2'
    l3 = ''.join('%15.8E' % v for v in c[5:10]) + '    3'
    l4 = ''.join('%15.8E' % v for v in c[10:14]) + ' ' * 19 + '4'
    for ln in (l1, l2, l3, l4):
        if len(ln) != RECORD_WIDTH:
            raise ValueError('formatter produced a %d-column record' % len(ln))
    return '\n'.join((l1, l2, l3, l4)) + '\n'

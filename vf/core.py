"""Shared infrastructure: case context, verdict recording, shard worker, runner.

Vocabulary
----------
spec      JSON-serialisable description of one case (inputs / operation history)
oracle    named deterministic decision procedure ("R1", "E5", ...)
mech      small dict of *discriminating features* of a violation (class, quantity,
          input class ...) -- what known findings are keyed by; never numbers/seeds
verdict   held | violated | inconclusive   (three valued, never folded)
"""
import collections
import hashlib
import importlib
import json
import math
import os
import random
import subprocess
import sys
import tempfile
import time
import traceback
import warnings

VERIF = os.path.dirname(os.path.dirname(os.path.abspath(__file__)))
MAX_STORED_PER_KEY = 3          # violation witnesses kept per (oracle, mech)
NOVALUE = object()


def out_dir(kind):
    """evidence/ and replays/ live in /verif; the mutation self-test redirects them
    (VERIF_OUT) so that runs against mutated scratch copies never touch real evidence."""
    base = os.environ.get('VERIF_OUT')
    return os.path.join(base, kind) if base else os.path.join(VERIF, kind)


def repo_path():
    return os.path.abspath(os.environ.get('VERIF_REPO', '/repo'))


def bind_repo():
    """Make `import pmutt` resolve to the tree under test (working tree of /repo, or
    the scratch copy named by VERIF_REPO for the mutation self-test)."""
    rp = repo_path()
    if rp not in sys.path[:1]:
        sys.path.insert(0, rp)
    os.environ.setdefault('MPLBACKEND', 'Agg')
    import pmutt
    got = os.path.dirname(os.path.dirname(os.path.abspath(pmutt.__file__)))
    if os.path.realpath(got) != os.path.realpath(rp):
        raise RuntimeError('pmutt imported from %s, wanted %s' % (got, rp))
    return pmutt


def jsonable(x, depth=0):
    """Best-effort conversion of anything into JSON-safe data (for details/replays)."""
    import numpy as np
    if depth > 8:
        return repr(x)[:200]
    if x is None or isinstance(x, (bool, str)):
        return x
    if isinstance(x, (int,)):
        return x
    if isinstance(x, float):
        if math.isnan(x) or math.isinf(x):
            return repr(x)
        return x
    if isinstance(x, np.generic):
        return jsonable(x.item(), depth + 1)
    if isinstance(x, np.ndarray):
        if x.size > 60:
            return {'ndarray_shape': list(x.shape),
                    'head': jsonable(x.ravel()[:20].tolist(), depth + 1)}
        return jsonable(x.tolist(), depth + 1)
    if isinstance(x, dict):
        return {str(k): jsonable(v, depth + 1) for k, v in list(x.items())[:80]}
    if isinstance(x, (list, tuple, set, frozenset)):
        return [jsonable(v, depth + 1) for v in list(x)[:80]]
    if isinstance(x, BaseException):
        return '%s: %s' % (type(x).__name__, str(x)[:300])
    return repr(x)[:300]


def canon(spec):
    return json.dumps(spec, sort_keys=True, separators=(',', ':'), default=repr)


def spec_hash(spec):
    return hashlib.sha1(canon(spec).encode()).hexdigest()[:16]


def mech_key(oracle, mech):
    return oracle + '|' + canon(mech)


class HarnessError(Exception):
    """A bug in the verification harness itself (never a verdict on pMuTT)."""


class Ctx:
    """Per-shard recorder handed to a property module's run_case()."""

    def __init__(self, prop_id, tier, seed):
        self.prop_id = prop_id
        self.tier = tier
        self.seed = seed
        self.oracle_evals = collections.Counter()
        self.oracle_viol = collections.Counter()
        self.max_err = {}
        self.classes = collections.Counter()
        self.branches = collections.Counter()
        self.viol_counts = collections.Counter()     # mech_key -> n
        self.viol_store = {}                         # mech_key -> [records]
        self.inconclusive = collections.Counter()
        self.inconclusive_examples = {}
        self.nontrivial_hashes = set()
        self.samples = []
        self.cases = 0
        self.case_index = None
        self.spec = None
        self.extra = {}
        self._case_nt = False
        self.tmpdir = None

    # ---- per case -------------------------------------------------------
    def begin(self, index, spec):
        self.case_index = index
        self.spec = spec
        self._case_nt = False
        self.cases += 1

    def end(self):
        if self._case_nt:
            self.nontrivial_hashes.add(spec_hash(self.spec))

    def nontrivial(self, flag=True):
        if flag:
            self._case_nt = True

    def cls(self, *names):
        for n in names:
            self.classes[str(n)] += 1

    def branch(self, name):
        self.branches[str(name)] += 1

    # ---- verdicts -------------------------------------------------------
    def held(self, oracle, n=1):
        self.oracle_evals[oracle] += n

    def fail(self, oracle, mech=None, **detail):
        mech = {k: (v if isinstance(v, (str, int, bool, type(None))) else str(v))
                for k, v in (mech or {}).items()}
        self.oracle_evals[oracle] += 1
        self.oracle_viol[oracle] += 1
        k = mech_key(oracle, mech)
        self.viol_counts[k] += 1
        lst = self.viol_store.setdefault(k, [])
        if len(lst) < MAX_STORED_PER_KEY:
            lst.append({'oracle': oracle, 'mech': mech, 'detail': jsonable(detail),
                        'case_index': self.case_index, 'spec': self.spec})
        return False

    def check(self, oracle, cond, mech=None, **detail):
        if cond:
            self.oracle_evals[oracle] += 1
            return True
        return self.fail(oracle, mech, **detail)

    def inconc(self, oracle, reason, **detail):
        key = '%s:%s' % (oracle, reason)
        self.inconclusive[key] += 1
        if key not in self.inconclusive_examples:
            self.inconclusive_examples[key] = {'case_index': self.case_index,
                                               'detail': jsonable(detail)}

    def err(self, got, want, scale=None):
        """scale-aware max error between two (array-like) numbers."""
        import numpy as np
        g = np.asarray(got, dtype=float)
        w = np.asarray(want, dtype=float)
        if g.shape != w.shape:
            try:
                g, w = np.broadcast_arrays(g, w)
            except ValueError:
                return float('inf')
        if g.size == 0:
            return 0.0
        if scale is None:
            sc = np.maximum(1.0, np.maximum(np.abs(g), np.abs(w)))
        else:
            sc = scale
        with np.errstate(all='ignore'):
            d = np.abs(g - w) / sc
        d = np.where(np.isnan(d), np.inf, d)
        # equal infinities count as equal
        same_inf = np.isinf(g) & np.isinf(w) & (np.sign(g) == np.sign(w))
        d = np.where(same_inf, 0.0, d)
        return float(np.max(d))

    def close(self, oracle, _got, _want, tol, mech=None, scale=None, **detail):
        got, want = _got, _want
        e = self.err(got, want, scale)
        if e <= tol:
            if e > self.max_err.get(oracle, 0.0):
                self.max_err[oracle] = e
            # closest approach to the tolerance (fraction of it that was used): the margin against false alarms
            if tol > 0 and e / tol > self.max_err.get(oracle + '/tol', 0.0):
                self.max_err[oracle + '/tol'] = e / tol
            self.oracle_evals[oracle] += 1
            return True
        detail.setdefault('got', got)
        detail.setdefault('want', want)
        return self.fail(oracle, mech, err=e, tol=tol, **detail)

    def call(self, oracle, mech, fn, *a, **k):
        """Call into pMuTT; an exception is a violation of `oracle` (no value was
        reported) and NOVALUE is returned."""
        try:
            return fn(*a, **k)
        except HarnessError:
            raise
        except Exception as e:                       # noqa
            m = dict(mech or {})
            m['exc'] = type(e).__name__
            self.fail(oracle, m, message=str(e)[:300],
                      where=_tb_where(e))
            return NOVALUE

    def raises(self, oracle, exc_types, mech, fn, *a, **k):
        """The property demands a refusal: fn must raise one of exc_types."""
        try:
            r = fn(*a, **k)
        except exc_types:
            self.oracle_evals[oracle] += 1
            return True
        except Exception as e:                       # wrong exception type
            m = dict(mech or {})
            m['exc'] = type(e).__name__
            return self.fail(oracle, m, message=str(e)[:300])
        m = dict(mech or {})
        m['exc'] = 'none'
        return self.fail(oracle, m, returned=r)

    # ---- result ---------------------------------------------------------
    def result(self):
        return {
            'cases': self.cases,
            'oracle_evals': dict(self.oracle_evals),
            'oracle_viol': dict(self.oracle_viol),
            'max_err': self.max_err,
            'classes': dict(self.classes),
            'branches': dict(self.branches),
            'viol_counts': dict(self.viol_counts),
            'viol_store': self.viol_store,
            'inconclusive': dict(self.inconclusive),
            'inconclusive_examples': self.inconclusive_examples,
            'nontrivial_hashes': sorted(self.nontrivial_hashes),
            'samples': self.samples,
            'extra': jsonable(self.extra),
        }


def _tb_where(e):
    tb = traceback.extract_tb(e.__traceback__)
    for fr in reversed(tb):
        if '/pmutt/' in fr.filename:
            return '%s:%d %s' % (fr.filename.split('/pmutt/', 1)[1], fr.lineno, fr.name)
    return ''


def load_prop(prop_id):
    return importlib.import_module('vf.props.%s' % prop_id.lower())


def case_rng(seed, prop_id, index):
    return random.Random('%s:%s:%d' % (seed, prop_id, index))


def n_random(mod, tier):
    n = mod.N[tier]
    scale = float(os.environ.get('VERIF_SCALE', '1'))
    return max(1, int(n * scale))


def make_spec(mod, tier, seed, index, directed):
    if index < len(directed):
        return directed[index]
    return mod.generate(case_rng(seed, mod.ID, index), tier)


# ------------------------------------------------------------------------
# worker (one shard, one process)
# ------------------------------------------------------------------------
def worker_main(argv):
    prop_id, tier, seed, shard, nshards, out = argv
    seed = int(seed); shard = int(shard); nshards = int(nshards)
    warnings.simplefilter('ignore')
    bind_repo()
    import numpy as np
    np.seterr(all='ignore')
    from vf import probes
    mod = load_prop(prop_id)
    ctx = Ctx(prop_id, tier, seed)
    directed = mod.directed(tier)
    total = len(directed) + n_random(mod, tier)
    pr = probes.Probes()
    if hasattr(mod, 'install_probes'):
        mod.install_probes(pr, ctx)
    t0 = time.time()
    budget = float(os.environ.get('VERIF_SHARD_BUDGET', mod.BUDGET[tier] if hasattr(mod, 'BUDGET') else 1e9))
    skipped = 0
    with tempfile.TemporaryDirectory(prefix='vf_%s_' % prop_id, dir=_scratch_root()) as td:
        ctx.tmpdir = td
        with pr:
            for index in range(shard, total, nshards):
                if time.time() - t0 > budget:
                    skipped += 1
                    continue
                spec = make_spec(mod, tier, seed, index, directed)
                ctx.begin(index, spec)
                pr.begin_case()
                try:
                    mod.run_case(spec, ctx)
                except HarnessError as e:
                    ctx.inconc('harness', 'HarnessError', tb=traceback.format_exc()[-1500:])
                except Exception as e:               # harness bug: never a verdict
                    ctx.inconc('harness', type(e).__name__, tb=traceback.format_exc()[-1500:])
                ctx.end()
                if index < len(directed):
                    if len([s for s in ctx.samples if s.get('kind') == 'directed']) < 2:
                        ctx.samples.append({'kind': 'directed', 'index': index, 'spec': spec})
                elif len([s for s in ctx.samples if s.get('kind') == 'random']) < 2:
                    ctx.samples.append({'kind': 'random', 'index': index, 'spec': spec})
    res = ctx.result()
    res['probe_calls'] = pr.counts()
    res['probe_absent'] = pr.absent
    res['skipped_over_budget'] = skipped
    res['pmutt_file'] = sys.modules['pmutt'].__file__
    res['wall_s'] = time.time() - t0
    with open(out, 'w') as f:
        json.dump(res, f)


def _scratch_root():
    for d in ('/dev/shm', tempfile.gettempdir()):
        if os.path.isdir(d) and os.access(d, os.W_OK):
            return d
    return None


# ------------------------------------------------------------------------
# known findings
# ------------------------------------------------------------------------
def load_known(prop_id):
    path = os.path.join(VERIF, 'known_findings.json')
    if not os.path.exists(path):
        return [], []
    data = json.load(open(path))
    opens = [e for e in data.get('open', []) if e['property'] == prop_id]
    fixed = [e for e in data.get('fixed', []) if e['property'] == prop_id]
    return opens, fixed


def entry_matches(entry, oracle, mech):
    orcs = entry['oracle']
    if isinstance(orcs, str):
        orcs = [orcs]
    if oracle not in orcs:
        return False
    for k, want in entry.get('match', {}).items():
        have = mech.get(k)
        if isinstance(want, list):
            if have not in want:
                return False
        elif have != want:
            return False
    return True


# ------------------------------------------------------------------------
# runner
# ------------------------------------------------------------------------
def merge(results):
    out = {'cases': 0, 'oracle_evals': collections.Counter(), 'oracle_viol': collections.Counter(),
           'max_err': {}, 'classes': collections.Counter(), 'branches': collections.Counter(),
           'viol_counts': collections.Counter(), 'viol_store': {}, 'inconclusive': collections.Counter(),
           'inconclusive_examples': {}, 'nontrivial': set(), 'samples': [],
           'probe_calls': collections.Counter(), 'probe_absent': set(), 'extra': {},
           'skipped_over_budget': 0, 'pmutt_file': None}
    for r in results:
        out['cases'] += r['cases']
        for k in ('oracle_evals', 'oracle_viol', 'classes', 'branches', 'viol_counts',
                  'inconclusive', 'probe_calls'):
            out[k].update(r[k])
        for k, v in r['max_err'].items():
            out['max_err'][k] = max(out['max_err'].get(k, 0.0), v)
        for k, v in r['viol_store'].items():
            lst = out['viol_store'].setdefault(k, [])
            for rec in v:
                if len(lst) < MAX_STORED_PER_KEY:
                    lst.append(rec)
        for k, v in r['inconclusive_examples'].items():
            out['inconclusive_examples'].setdefault(k, v)
        out['nontrivial'].update(r['nontrivial_hashes'])
        out['samples'].extend(r['samples'])
        out['probe_absent'].update(r['probe_absent'])
        out['skipped_over_budget'] += r['skipped_over_budget']
        out['pmutt_file'] = r['pmutt_file']
        for k, v in (r.get('extra') or {}).items():
            if isinstance(v, (int, float)) and not isinstance(v, bool):
                out['extra'][k] = out['extra'].get(k, 0) + v
            elif isinstance(v, dict):
                d = out['extra'].setdefault(k, {})
                for kk, vv in v.items():
                    if isinstance(vv, (int, float)) and not isinstance(vv, bool):
                        d[kk] = d.get(kk, 0) + vv
                    else:
                        d[kk] = vv
            else:
                out['extra'][k] = v
    return out


def run_check(prop_id, tier, seed, nshards=None):
    mod = load_prop(prop_id)
    t0 = time.time()
    nshards = nshards or int(os.environ.get('VERIF_SHARDS', '16'))
    os.makedirs(out_dir('evidence'), exist_ok=True)
    os.makedirs(out_dir('replays'), exist_ok=True)
    env = dict(os.environ)
    env['PYTHONHASHSEED'] = '0'
    env['MPLBACKEND'] = 'Agg'
    env['PYTHONPATH'] = VERIF + os.pathsep + env.get('PYTHONPATH', '')
    env['OMP_NUM_THREADS'] = '1'
    env['OPENBLAS_NUM_THREADS'] = '1'
    env['MKL_NUM_THREADS'] = '1'
    watchdog = float(os.environ.get('VERIF_WATCHDOG', mod.WATCHDOG[tier] if hasattr(mod, 'WATCHDOG')
                                    else (900 if tier == 'quick' else 7200)))
    results, problems = [], []
    with tempfile.TemporaryDirectory(prefix='vf_run_', dir=_scratch_root()) as td:
        procs = []
        for s in range(nshards):
            out = os.path.join(td, 'shard%d.json' % s)
            log = open(os.path.join(td, 'shard%d.log' % s), 'w')
            p = subprocess.Popen([sys.executable, '-m', 'vf.worker', prop_id, tier, str(seed),
                                  str(s), str(nshards), out], env=env, cwd=VERIF,
                                 stdout=log, stderr=subprocess.STDOUT)
            procs.append((s, p, out, log))
        deadline = t0 + watchdog
        for s, p, out, log in procs:
            try:
                p.wait(timeout=max(1.0, deadline - time.time()))
            except subprocess.TimeoutExpired:
                p.kill(); p.wait()
                problems.append('shard %d: watchdog fired after %.0fs' % (s, watchdog))
                continue
            finally:
                log.close()
            if p.returncode != 0 or not os.path.exists(out):
                tail = open(log.name).read()[-1500:]
                problems.append('shard %d: worker exit %s: %s' % (s, p.returncode, tail))
                continue
            results.append(json.load(open(out)))
    m = merge(results)
    return finish(mod, prop_id, tier, seed, m, problems, time.time() - t0)


def finish(mod, prop_id, tier, seed, m, problems, wall):
    opens, fixed = load_known(prop_id)
    lines = []
    unlisted = []            # (key, count, records)
    known_obs = collections.Counter()
    for k, n in m['viol_counts'].items():
        recs = m['viol_store'].get(k, [])
        oracle = k.split('|', 1)[0]
        mech = json.loads(k.split('|', 1)[1])
        hit = None
        for e in opens:
            if entry_matches(e, oracle, mech):
                hit = e
                break
        if hit is not None:
            known_obs[hit['id']] += n
        else:
            unlisted.append((k, n, recs))
    # inconclusive conditions ------------------------------------------------
    inconclusive = list(problems)
    required = getattr(mod, 'REQUIRED_ORACLES', [])
    for o in required:
        if m['oracle_evals'].get(o, 0) == 0:
            inconclusive.append('deciding oracle %s evaluated 0 times' % o)
    for c in getattr(mod, 'REQUIRED_CLASSES', []):
        if m['classes'].get(c, 0) == 0:
            inconclusive.append('input class %s never generated' % c)
    for b in getattr(mod, 'REQUIRED_BRANCHES', []):
        if m['branches'].get(b, 0) == 0:
            inconclusive.append('branch %s never observed' % b)
    for p in getattr(mod, 'REQUIRED_PROBES', []):
        if p in m['probe_absent']:
            continue            # refactored away: boundary oracles still decide
        if m['probe_calls'].get(p, 0) == 0:
            inconclusive.append('probe %s never fired' % p)
    for k, n in m['inconclusive'].items():
        if k.startswith('harness:'):
            inconclusive.append('harness error %s x%d: %s' % (
                k, n, m['inconclusive_examples'].get(k, {}).get('detail')))
    if m['skipped_over_budget']:
        inconclusive.append('%d cases skipped: shard time budget exhausted' % m['skipped_over_budget'])
    if m['cases'] == 0:
        inconclusive.append('no case executed')
    if len(m['nontrivial']) < 2:
        inconclusive.append('fewer than 2 distinct non-trivial cases')
    soft_inc = {k: n for k, n in m['inconclusive'].items() if not k.startswith('harness:')}
    # replays ---------------------------------------------------------------
    rdir = out_dir('replays')
    viol_paths = []
    for k, n, recs in sorted(unlisted, key=lambda t: t[0]):
        if not recs:
            continue
        rec = recs[0]
        h = hashlib.sha1(k.encode()).hexdigest()[:10]
        path = os.path.join(rdir, '%s_%s_%s.json' % (prop_id, rec['oracle'], h))
        with open(path, 'w') as f:
            json.dump({'property': prop_id, 'tier': tier, 'seed': seed, 'oracle': rec['oracle'],
                       'mech': rec['mech'], 'count': n, 'detail': rec['detail'],
                       'case_index': rec['case_index'], 'spec': rec['spec']}, f, indent=1,
                      default=repr)
        viol_paths.append((path, rec, n))
    # evidence --------------------------------------------------------------
    samples = []
    seen_kinds = collections.Counter()
    for s in m['samples']:
        if seen_kinds[s['kind']] < 3:
            samples.append(s)
            seen_kinds[s['kind']] += 1
    ev = {
        'property_id': prop_id, 'tier': tier, 'seed': seed, 'level': 'exploration',
        'coverage': {
            'evaluations': m['cases'],
            'distinct_nontrivial': len(m['nontrivial']),
            'rule': mod.NT_RULE,
            'samples': samples,
            'oracle_evaluations': dict(m['oracle_evals']),
            'oracle_violations': dict(m['oracle_viol']),
            'max_err': m['max_err'],
            'class_histogram': dict(m['classes']),
            'branches': dict(m['branches']),
            'probe_calls': dict(m['probe_calls']),
            'probe_absent': sorted(m['probe_absent']),
            'known_findings_observed': {e['id']: known_obs.get(e['id'], 0) for e in opens},
            'fixed_findings': [e['id'] for e in fixed],
            'unlisted_violation_kinds': len(unlisted),
            'inconclusive_points': soft_inc,
            'inconclusive_run_reasons': inconclusive,
            'extra': m['extra'],
            'pmutt_file': m['pmutt_file'],
        },
        'assumptions': getattr(mod, 'ASSUMPTIONS', []),
        'wall_s': round(wall, 2),
        'violations': sum(n for _, n, _ in unlisted),
    }
    if getattr(mod, 'EXHAUSTIVE', False):
        ev['coverage']['exhaustive'] = True
    with open(os.path.join(out_dir('evidence'), '%s.json' % prop_id), 'w') as f:
        json.dump(ev, f, indent=1, default=repr)
    # report ----------------------------------------------------------------
    print('%s tier=%s seed=%s cases=%d nontrivial=%d wall=%.1fs' % (
        prop_id, tier, seed, m['cases'], len(m['nontrivial']), wall))
    print('  oracle evaluations: %s' % json.dumps(dict(sorted(m['oracle_evals'].items()))))
    if m['max_err']:
        print('  max observed err  : %s' % json.dumps({k: float('%.3g' % v) for k, v in sorted(m['max_err'].items())}))
    print('  probe calls       : %s' % json.dumps(dict(sorted(m['probe_calls'].items()))))
    if soft_inc:
        print('  inconclusive points: %s' % json.dumps(soft_inc))
    for e in opens:
        print('KNOWN-FINDING: property=%s %s [%s] observed=%d' % (
            prop_id, e['what'], e['id'], known_obs.get(e['id'], 0)))
    for path, rec, n in viol_paths:
        print('  violated oracle=%s mech=%s count=%d detail=%s' % (
            rec['oracle'], json.dumps(rec['mech'], sort_keys=True), n,
            json.dumps(rec['detail'], default=repr)[:400]))
        print('VIOLATION property=%s replay=%s' % (prop_id, path))
    if viol_paths:
        for r in inconclusive:
            print('  (also inconclusive: %s)' % str(r)[:600])
        return 1
    if inconclusive:
        for r in inconclusive:
            print('INCONCLUSIVE property=%s reason=%s' % (prop_id, str(r)[:1500]))
        return 2
    print('HELD property=%s on everything explored' % prop_id)
    return 0


def replay(prop_id, path):
    warnings.simplefilter('ignore')
    bind_repo()
    import numpy as np
    np.seterr(all='ignore')
    from vf import probes
    mod = load_prop(prop_id)
    rec = json.load(open(path))
    ctx = Ctx(prop_id, rec.get('tier', 'quick'), rec.get('seed', 0))
    pr = probes.Probes()
    if hasattr(mod, 'install_probes'):
        mod.install_probes(pr, ctx)
    with tempfile.TemporaryDirectory(prefix='vf_replay_', dir=_scratch_root()) as td:
        ctx.tmpdir = td
        with pr:
            ctx.begin(rec.get('case_index', 0), rec['spec'])
            pr.begin_case()
            mod.run_case(rec['spec'], ctx)
            ctx.end()
    print('replayed case %s: oracle evaluations %s' % (rec.get('case_index'), dict(ctx.oracle_evals)))
    print('probe calls: %s' % pr.counts())
    opens, _ = load_known(prop_id)
    bad = 0
    for k, recs in ctx.viol_store.items():
        for r in recs:
            known = any(entry_matches(e, r['oracle'], r['mech']) for e in opens)
            print('%s oracle=%s mech=%s detail=%s' % ('known-finding' if known else 'VIOLATED',
                  r['oracle'], json.dumps(r['mech'], sort_keys=True),
                  json.dumps(r['detail'], default=repr)[:800]))
            if not known:
                bad += 1
    if bad:
        print('VIOLATION property=%s replay=%s' % (prop_id, path))
        return 1
    print('no unlisted violation reproduced')
    return 0

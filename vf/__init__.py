"""Runtime-monitoring machinery for pMuTT properties C01-C20 (see /verif/DESIGN.md)."""

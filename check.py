#!/venv/bin/python
"""check.py <Cxx> [--tier quick|thorough] [--seed N] [--replay path]

exit 0  property held on everything explored (open known findings are printed)
exit 1  at least one unlisted violation: `VIOLATION property=<id> replay=<path>`
exit 2  inconclusive (a deciding oracle / probe / input class was never reached,
        watchdog fired, harness error): `INCONCLUSIVE property=<id> reason=...`
"""
import os
os.environ.setdefault('OPENBLAS_NUM_THREADS', '1'); os.environ.setdefault('OMP_NUM_THREADS', '1'); os.environ.setdefault('MKL_NUM_THREADS', '1')   # same numerical environment for runs and replays
import argparse
import os
import sys

sys.path.insert(0, os.path.dirname(os.path.abspath(__file__)))
from vf import core   # noqa


def main():
    ap = argparse.ArgumentParser()
    ap.add_argument('prop')
    ap.add_argument('--tier', default=os.environ.get('VERIF_TIER', 'quick'),
                    choices=['quick', 'thorough'])
    ap.add_argument('--seed', type=int, default=int(os.environ.get('VERIF_SEED', '0')))
    ap.add_argument('--replay')
    ap.add_argument('--shards', type=int)
    a = ap.parse_args()
    prop = a.prop.upper()
    if a.replay:
        sys.exit(core.replay(prop, a.replay))
    sys.exit(core.run_check(prop, a.tier, a.seed, a.shards))


if __name__ == '__main__':
    main()
